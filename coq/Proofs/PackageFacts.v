(* Proofs for C17. *)
From Coq Require Import String.
From Coq Require Import Arith NArith ZArith List Bool Lia Sorted Permutation.
From DI Require Import Result PyStr PyStrFacts Version Dpkg OrderFacts VersionFacts ParseFacts VersionOrder Package SortFacts.
Import ListNotations.
Open Scope N_scope.

(* ---------- errors ---------- *)

Lemma get_nva_raise f e : get_nva f = Raise e -> e = ValueError.
Proof.
  unfold get_nva.
  match goal with |- context [match ?k with Some _ => _ | None => _ end = _ -> _] => destruct k as [b|] end;
    [|intros H; now inversion H].
  destruct (split_char 95 b) as [|n [|evr [|arch [|x l]]]]; try (intros H; now inversion H).
  - destruct (from_string evr) as [v|e'] eqn:E; cbn [bind]; [discriminate|].
    intros H. inversion H; subst. now apply (from_string_raise evr).
  - destruct (from_string evr) as [v|e'] eqn:E; cbn [bind]; [discriminate|].
    intros H. inversion H; subst. now apply (from_string_raise evr).
Qed.

Theorem from_filename_raise f e :
  (deb_from_filename f = Raise e \/ code_from_filename f = Raise e) -> e = ValueError.
Proof.
  unfold deb_from_filename, code_from_filename.
  intros [H|H]; destruct (get_nva (basename f)) as [[[n v] a]|e'] eqn:E; cbn [bind] in H; try discriminate;
    inversion H; subst; now apply (get_nva_raise (basename f)).
Qed.

(* acceptance: two or three underscore-separated parts and a valid version *)
Theorem from_filename_ok f a :
  deb_from_filename f = Ok a ->
  a_file a = f /\
  exists stem evr,
    (split_char 95 stem = [a_name a; evr] /\ a_arch a = None \/
     exists arch, split_char 95 stem = [a_name a; evr; arch] /\ a_arch a = Some arch) /\
    from_string evr = Ok (a_version a).
Proof.
  unfold deb_from_filename. destruct (get_nva (basename f)) as [[[n v] ar]|e] eqn:E; cbn [bind]; [|discriminate].
  intros H. inversion H; subst. cbn [a_file a_name a_arch a_version]. split; [reflexivity|].
  unfold get_nva in E.
  match type of E with context [match ?k with Some _ => _ | None => _ end] => destruct k as [b|] end; [|discriminate].
  exists b. destruct (split_char 95 b) as [|n' [|evr [|arch [|x l]]]]; try discriminate.
  - destruct (from_string evr) as [v'|e'] eqn:Ev; cbn [bind] in E; [|discriminate]. inversion E; subst.
    exists evr. split; [left; split; reflexivity|exact Ev].
  - destruct (from_string evr) as [v'|e'] eqn:Ev; cbn [bind] in E; [|discriminate]. inversion E; subst.
    exists evr. split; [right; exists arch; split; reflexivity|exact Ev].
Qed.

(* ---------- latest version ---------- *)

Definition wfa (a : archive) : Prop := wfv (a_version a).

Lemma archive_lt_compat name x y b :
  wfa x -> wfa y -> a_name x = name -> a_name y = name ->
  archive_lt x y = Ok b ->
  (vcmp (a_version x) (a_version y) = Lt -> b = true) /\
  (vcmp (a_version x) (a_version y) = Gt -> b = false).
Proof.
  intros Wx Wy Nx Ny H. unfold archive_lt in H. rewrite Nx, Ny, str_eqb_refl in H. cbn [negb] in H.
  destruct (version_eqb (a_version x) (a_version y)) eqn:Ev; cbn [negb] in H.
  - apply version_eqb_eq in Ev. rewrite Ev, (cmp_refl vcmp_ok). split; discriminate.
  - destruct (ops_agree _ _ _ (cvo_vcmp _ _ Wx Wy)) as (Hlt & _). rewrite Hlt in H. inversion H; subst.
    destruct (vcmp (a_version x) (a_version y)); split; intros; try discriminate; reflexivity.
Qed.

Definition same (name : str) (a : archive) : Prop := wfa a /\ a_name a = name.

Lemma archive_lt_compat' name x y b : same name x -> same name y -> archive_lt x y = Ok b ->
  (vcmp (a_version x) (a_version y) = Lt -> b = true) /\
  (vcmp (a_version x) (a_version y) = Gt -> b = false).
Proof. intros [Wx Nx] [Wy Ny]. now apply (archive_lt_compat name). Qed.

Lemma dedup_names_one name l : l <> [] -> Forall (fun n => n = name) l -> dedup_names l = [name].
Proof.
  induction l as [|x l IH]; [contradiction|]. intros _ H. inversion H as [|? ? Hx Hl]; subst.
  cbn [dedup_names]. destruct l as [|y l]; [reflexivity|].
  assert (E : mem_str name (y :: l) = true).
  { inversion Hl; subst. cbn [mem_str]. now rewrite str_eqb_refl. }
  rewrite E. apply IH; [discriminate|exact Hl].
Qed.

Definition dummy_archive : archive := mkArchive [] (mkVersion 0 [] []) None [].

(* one name: the result is one of the inputs and no input has a later version *)
Theorem latest_is_maximum name ps res :
  ps <> [] -> Forall (same name) ps ->
  find_latest_version_archives ps = Ok res ->
  exists p, res = Some p /\ In p ps /\
            forall q, In q ps -> vcmp (a_version q) (a_version p) <> Gt.
Proof.
  intros Hne Hsame H. unfold find_latest_version_archives in H.
  destruct ps as [|p0 ps']; [contradiction|]. set (ps := p0 :: ps') in *.
  destruct (py_sort archive_lt ps) as [sorted|e] eqn:Es; [|discriminate]. cbn [bind] in H.
  destruct (py_sort_spec archive_lt (fun a => a_version a) vcmp vcmp_ok (same name) (archive_lt_compat' name) ps sorted Hsame Es) as [_ Hperm].
  assert (Hnames : dedup_names (map a_name sorted) = [name]).
  { apply dedup_names_one.
    - intros E. apply map_eq_nil in E. subst sorted. apply Permutation_sym, Permutation_nil in Hperm. discriminate.
    - rewrite Forall_map. apply Forall_forall. intros a Ha. apply (Permutation_in _ (Permutation_sym Hperm)) in Ha.
      rewrite Forall_forall in Hsame. now apply Hsame. }
  rewrite Hnames in H. cbn in H. inversion H; subst res.
  destruct (py_sort_last_max archive_lt (fun a => a_version a) vcmp vcmp_ok (same name) (archive_lt_compat' name)
              ps sorted dummy_archive Hsame Es Hne) as [Hin Hmax].
  eexists. split; [reflexivity|]. split; [exact Hin|exact Hmax].
Qed.

(* mixed names: ValueError, provided the sort itself answers *)
Lemma dedup_two l x y : In x l -> In y l -> x <> y -> (1 < length (dedup_names l))%nat.
Proof.
  intros Hx Hy Hn.
  assert (G : forall l, (forall z, In z l -> In z (dedup_names l))).
  { induction l0 as [|a l0 IH]; [intros ? []|]. intros z [<-|Hz]; cbn [dedup_names].
    - destruct (mem_str a l0) eqn:E; [|now left]. apply IH.
      clear -E. induction l0 as [|b l0 IH]; [discriminate|]. cbn in E. apply orb_true_iff in E as [E|E].
      + apply str_eqb_eq in E. subst. now left.
      + right. now apply IH.
    - destruct (mem_str a l0); [now apply IH|right; now apply IH]. }
  pose proof (G l x Hx) as Hx'. pose proof (G l y Hy) as Hy'.
  destruct (dedup_names l) as [|a [|b r]]; [destruct Hx'| |simpl; lia].
  destruct Hx' as [<-|[]]. destruct Hy' as [<-|[]]. contradiction.
Qed.

Theorem mixed_names_raise ps sorted x y :
  py_sort archive_lt ps = Ok sorted -> Permutation ps sorted ->
  In x ps -> In y ps -> a_name x <> a_name y ->
  find_latest_version_archives ps = Raise ValueError.
Proof.
  intros Es Hp Hx Hy Hn. unfold find_latest_version_archives.
  destruct ps as [|p0 ps']; [destruct Hx|]. rewrite Es. cbn [bind].
  assert (L : (1 < length (dedup_names (map a_name sorted)))%nat).
  { apply (dedup_two _ (a_name x) (a_name y)); [| |exact Hn]; apply in_map; eapply Permutation_in; eassumption. }
  apply Nat.ltb_lt in L. now rewrite L.
Qed.

(* ---------- file names round-trip ---------- *)

Definition dir_prefix (d : str) : Prop := d = [] \/ exists d', d = d' ++ [47].

Lemma basename_dir d rest : dir_prefix d -> ~ In 47 rest -> basename (d ++ rest) = rest.
Proof.
  intros [->|(d' & ->)] Hn; unfold basename.
  - cbn [app]. now rewrite rpartition_char_absent.
  - rewrite <- app_assoc. cbn [app]. now rewrite rpartition_char_app.
Qed.

Lemma not_all_dots stem : In 95 stem -> forallb (fun c => c =? 46) stem = false.
Proof.
  intros H. destruct (forallb (fun c => c =? 46) stem) eqn:E; [|reflexivity].
  rewrite forallb_forall in E. specialize (E _ H). discriminate.
Qed.

Lemma splitext_ext stem ext : In 95 stem -> ~ In 46 ext -> splitext (stem ++ 46 :: ext) = (stem, 46 :: ext).
Proof.
  intros Hs He. unfold splitext. rewrite rpartition_char_app by exact He. now rewrite not_all_dots.
Qed.

Lemma split3 n v a : ~ In 95 n -> ~ In 95 v -> ~ In 95 a ->
  split_char 95 (n ++ [95] ++ v ++ [95] ++ a) = [n; v; a].
Proof.
  intros Hn Hv Ha. change (n ++ [95] ++ v ++ [95] ++ a) with (join [95] [n; v; a]).
  apply split_char_join; [discriminate|repeat constructor; assumption].
Qed.

Lemma split2 n v : ~ In 95 n -> ~ In 95 v -> split_char 95 (n ++ [95] ++ v) = [n; v].
Proof.
  intros Hn Hv. change (n ++ [95] ++ v) with (join [95] [n; v]).
  apply split_char_join; [discriminate|repeat constructor; assumption].
Qed.

Lemma In_middle (x : char) a b : In x (a ++ [x] ++ b).
Proof. apply in_or_app. right. now left. Qed.

Lemma not_In_app3 (c : char) a b d : ~ In c a -> ~ In c b -> ~ In c d -> c <> 95 -> ~ In c (a ++ [95] ++ b ++ [95] ++ d).
Proof.
  intros Ha Hb Hd Hc H. repeat (apply in_app_or in H as [H|H]); try contradiction;
    destruct H as [H|H]; try congruence; try contradiction.
Qed.

Lemma not_In_app2 (c : char) a b : ~ In c a -> ~ In c b -> c <> 95 -> ~ In c (a ++ [95] ++ b).
Proof.
  intros Ha Hb Hc H. repeat (apply in_app_or in H as [H|H]); try contradiction;
    destruct H as [H|H]; try congruence; try contradiction.
Qed.

(* name_version_arch.deb / .udeb, with any directory prefix *)
Theorem roundtrip_binary d n v a ext ver :
  dir_prefix d -> ~ In 95 n -> ~ In 47 n -> ~ In 95 v -> ~ In 47 v -> ~ In 95 a -> ~ In 47 a ->
  (ext = lit "deb" \/ ext = lit "udeb") -> from_string v = Ok ver ->
  let f := d ++ (n ++ [95] ++ v ++ [95] ++ a) ++ 46 :: ext in
  deb_from_filename f = Ok (mkArchive n ver (Some a) f).
Proof.
  intros Hd Hn Hn' Hv Hv' Ha Ha' Hext Hver. cbv zeta.
  set (stem := n ++ [95] ++ v ++ [95] ++ a).
  assert (Hext46 : ~ In 46 ext /\ ~ In 47 ext) by (destruct Hext as [->| ->]; split; cbn; intuition discriminate).
  destruct Hext46 as [He46 He47].
  assert (Hb : basename (d ++ stem ++ 46 :: ext) = stem ++ 46 :: ext).
  { apply basename_dir; [exact Hd|]. intros H. apply in_app_or in H as [H|[H|H]]; [|discriminate|contradiction].
    revert H. apply not_In_app3; try assumption. discriminate. }
  unfold deb_from_filename. rewrite Hb. unfold get_nva.
  assert (E1 : endswith_any [lit ".deb"; lit ".udeb"; lit ".dsc"] (stem ++ 46 :: ext) = true).
  { unfold endswith_any. apply existsb_exists. exists (46 :: ext). split.
    - destruct Hext as [->| ->]; cbn; auto.
    - apply endswith_app. }
  rewrite E1. rewrite splitext_ext; [|apply In_middle|exact He46]. cbn [fst].
  unfold stem. rewrite split3 by assumption. rewrite Hver. reflexivity.
Qed.

(* name_version.dsc *)
Theorem roundtrip_dsc d n v ver :
  dir_prefix d -> ~ In 95 n -> ~ In 47 n -> ~ In 95 v -> ~ In 47 v -> from_string v = Ok ver ->
  let f := d ++ (n ++ [95] ++ v) ++ lit ".dsc" in
  code_from_filename f = Ok (mkArchive n ver None f) /\ deb_from_filename f = Ok (mkArchive n ver None f).
Proof.
  intros Hd Hn Hn' Hv Hv' Hver. cbv zeta. set (stem := n ++ [95] ++ v).
  assert (Hb : basename (d ++ stem ++ lit ".dsc") = stem ++ lit ".dsc").
  { apply basename_dir; [exact Hd|]. intros H. apply in_app_or in H as [H|H]; [|cbn in H; intuition discriminate].
    revert H. apply not_In_app2; try assumption. discriminate. }
  unfold code_from_filename, deb_from_filename. rewrite Hb. unfold get_nva.
  assert (E1 : endswith_any [lit ".deb"; lit ".udeb"; lit ".dsc"] (stem ++ lit ".dsc") = true).
  { unfold endswith_any. apply existsb_exists. exists (lit ".dsc"). split; [cbn; auto|apply endswith_app]. }
  rewrite E1. change (lit ".dsc") with (46 :: lit "dsc").
  rewrite splitext_ext; [|apply In_middle|cbn; intuition discriminate]. cbn [fst].
  unfold stem. rewrite split2 by assumption. rewrite Hver. split; reflexivity.
Qed.

(* name_version_copyright / _changelog *)
Theorem roundtrip_metadata d n v suffix ver :
  dir_prefix d -> ~ In 95 n -> ~ In 47 n -> ~ In 95 v -> ~ In 47 v ->
  (suffix = lit "copyright" \/ suffix = lit "changelog") -> from_string v = Ok ver ->
  let f := d ++ (n ++ [95] ++ v) ++ 95 :: suffix in
  code_from_filename f = Ok (mkArchive n ver None f).
Proof.
  intros Hd Hn Hn' Hv Hv' Hs Hver. cbv zeta. set (stem := n ++ [95] ++ v).
  assert (Hs' : ~ In 95 suffix /\ ~ In 47 suffix) by (destruct Hs as [->| ->]; split; cbn; intuition discriminate).
  destruct Hs' as [Hs95 Hs47].
  assert (Hb : basename (d ++ stem ++ 95 :: suffix) = stem ++ 95 :: suffix).
  { apply basename_dir; [exact Hd|]. intros H. apply in_app_or in H as [H|[H|H]]; [|discriminate|contradiction].
    revert H. apply not_In_app2; try assumption. discriminate. }
  unfold code_from_filename. rewrite Hb. unfold get_nva.
  assert (E1 : endswith_any [lit ".deb"; lit ".udeb"; lit ".dsc"] (stem ++ 95 :: suffix) = false).
  { unfold endswith_any, endswith. rewrite rev_app_distr. destruct Hs as [->| ->]; reflexivity. }
  assert (E2 : endswith_any [lit "_changelog"; lit "_copyright"] (stem ++ 95 :: suffix) = true).
  { unfold endswith_any. apply existsb_exists. exists (95 :: suffix). split; [destruct Hs as [->| ->]; cbn; auto|apply endswith_app]. }
  rewrite E1, E2. rewrite rpartition_char_app by exact Hs95.
  unfold stem. rewrite split2 by assumption. rewrite Hver. reflexivity.
Qed.

(* name_version.orig.tar.{gz,xz,bz2,lzma} and .debian.tar.* *)
Theorem roundtrip_tarball d n v kind comp ver :
  dir_prefix d -> ~ In 95 n -> ~ In 47 n -> ~ In 95 v -> ~ In 47 v ->
  (kind = lit "orig" \/ kind = lit "debian") ->
  (comp = lit "gz" \/ comp = lit "xz" \/ comp = lit "bz2" \/ comp = lit "lzma") ->
  from_string v = Ok ver ->
  let f := d ++ ((n ++ [95] ++ v) ++ 46 :: kind) ++ (lit ".tar" ++ [46]) ++ comp in
  code_from_filename f = Ok (mkArchive n ver None f).
Proof.
  intros Hd Hn Hn' Hv Hv' Hk Hc Hver. cbv zeta. set (stem := n ++ [95] ++ v).
  assert (Hc' : ~ In 46 comp /\ ~ In 47 comp) by (destruct Hc as [->|[->|[->| ->]]]; split; cbn; intuition discriminate).
  destruct Hc' as [Hc46 Hc47].
  assert (Hk' : ~ In 46 kind /\ ~ In 47 kind) by (destruct Hk as [->| ->]; split; cbn; intuition discriminate).
  destruct Hk' as [Hk46 Hk47].
  set (fname := (stem ++ 46 :: kind) ++ (lit ".tar" ++ [46]) ++ comp).
  assert (Hb : basename (d ++ fname) = fname).
  { apply basename_dir; [exact Hd|]. unfold fname. intros H.
    apply in_app_or in H as [H|H].
    - apply in_app_or in H as [H|[H|H]]; [|discriminate|contradiction]. revert H. apply not_In_app2; try assumption. discriminate.
    - apply in_app_or in H as [H|H]; [cbn in H; intuition discriminate|contradiction]. }
  unfold code_from_filename. rewrite Hb. unfold get_nva.
  assert (E1 : endswith_any [lit ".deb"; lit ".udeb"; lit ".dsc"] fname = false).
  { unfold endswith_any, endswith, fname. rewrite !rev_app_distr. destruct Hc as [->|[->|[->| ->]]]; reflexivity. }
  assert (E2 : endswith_any [lit "_changelog"; lit "_copyright"] fname = false).
  { unfold endswith_any, endswith, fname. rewrite !rev_app_distr. destruct Hc as [->|[->|[->| ->]]]; reflexivity. }
  assert (E3 : endswith_any [lit ".tar.gz"; lit ".tar.xz"; lit ".tar.bz2"; lit ".tar.lzma"] fname = true).
  { unfold endswith_any. apply existsb_exists. exists ((lit ".tar" ++ [46]) ++ comp). split.
    - destruct Hc as [->|[->|[->| ->]]]; cbn; auto.
    - unfold fname. apply endswith_app. }
  assert (Hrp : rpartition_str (lit ".tar.") fname = (stem ++ 46 :: kind, true, comp)).
  { change (lit ".tar.") with (lit ".tar" ++ [46]). unfold fname. apply rpartition_str_nohead. exact Hc46. }
  rewrite E1, E2, E3, Hrp.
  rewrite splitext_ext; [|apply In_middle|exact Hk46].
  assert (E4 : str_eqb (46 :: kind) (lit ".orig") || str_eqb (46 :: kind) (lit ".debian") = true)
    by (destruct Hk as [->| ->]; reflexivity).
  rewrite E4. unfold stem. rewrite split2 by assumption. rewrite Hver. reflexivity.
Qed.
