(* Proofs for C12: a blank line followed by a continuation line is absorbed into the
   current field exactly like a blank-line marker. *)
From Coq Require Import String.
From Coq Require Import NArith List Bool Lia.
From DI Require Import Result PyStr PyStrFacts Codec Deb822 Deb822Facts.
Import ListNotations.
Open Scope N_scope.

Lemma blank_tab_space c : is_blank_tab c = true -> is_space c = true.
Proof. unfold is_blank_tab. intros H. apply orb_true_iff in H as [H|H]; apply N.eqb_eq in H; subst; reflexivity. Qed.

Lemma blank_tab_not_az c : is_blank_tab c = true -> is_az_ic c = false.
Proof. unfold is_blank_tab. intros H. apply orb_true_iff in H as [H|H]; apply N.eqb_eq in H; subst; reflexivity. Qed.

(* a continuation line is neither blank nor a declaration *)
Lemma is_cont_facts v : is_cont v = true -> is_blank v = false /\ is_decl v = false.
Proof.
  unfold is_cont. destruct v as [|c v']; [discriminate|]. intros H. apply andb_true_iff in H as [Hc Hx]. split.
  - destruct (drop_while is_blank_tab (c :: v')) as [|x r] eqn:E; [discriminate|]. apply negb_true_iff in Hx.
    unfold is_blank, all_space. destruct (forallb is_space (c :: v')) eqn:Ef; [|reflexivity].
    rewrite forallb_forall in Ef. assert (Hin : In x (c :: v')).
    { destruct (drop_while_suffix is_blank_tab (c :: v')) as (a & Ea & _). rewrite Ea, E. apply in_or_app. right. now left. }
    rewrite (Ef x Hin) in Hx. discriminate.
  - unfold is_decl. now rewrite (blank_tab_not_az c Hc).
Qed.

Lemma rstrip_blank v : is_blank v = true -> rstrip v = [].
Proof. apply rstrip_by_all. Qed.

(* the two steps taken on  [marker or blank line] ; continuation line *)
Theorem blank_absorbed_like_marker f fs n v n2 c rest :
  is_cont c = true ->
  (is_cont v = true \/ is_blank v = true) ->
  groups_loop (mkLine n v :: mkLine n2 c :: rest) (f :: fs) =
  groups_loop rest (add_continuation (add_continuation f (mkLine n v)) (mkLine n2 c) :: fs).
Proof.
  intros Hc Hv. destruct (is_cont_facts c Hc) as [Hcb Hcd].
  cbn [groups_loop ln_val]. destruct Hv as [Hv|Hv].
  - destruct (is_cont_facts v Hv) as [Hvb _]. rewrite Hvb, Hv. cbn [groups_loop ln_val]. rewrite ?Hcb, ?Hc. reflexivity.
  - rewrite Hv. cbn [ln_val]. rewrite Hcd, Hcb. cbn [negb andb]. cbn [groups_loop ln_val]. rewrite ?Hcb, ?Hc. reflexivity.
Qed.

(* so replacing the marker by a blank line changes only the recorded text of that line:
   the marker keeps its text without trailing blanks, the blank line records the empty text *)
Corollary marker_vs_blank f fs n v v' n2 c rest :
  is_cont c = true -> is_cont v = true -> is_blank v' = true ->
  exists st st',
    groups_loop (mkLine n v :: mkLine n2 c :: rest) (f :: fs) = groups_loop rest st /\
    groups_loop (mkLine n v' :: mkLine n2 c :: rest) (f :: fs) = groups_loop rest st' /\
    st = mkField (f_name f) (mkLine n2 (rstrip c) :: mkLine n (rstrip v) :: f_lines f) :: fs /\
    st' = mkField (f_name f) (mkLine n2 (rstrip c) :: mkLine n [] :: f_lines f) :: fs.
Proof.
  intros Hc Hv Hv'. eexists; eexists. split; [apply blank_absorbed_like_marker; auto|].
  split; [apply blank_absorbed_like_marker; auto|]. split; [reflexivity|].
  unfold add_continuation. cbn [f_name f_lines ln_num ln_val]. now rewrite (rstrip_blank v' Hv').
Qed.

(* and both texts decode to an empty line in formatted fields *)
Lemma decode_marker_or_blank : decode_line [32; 46] = [] /\ decode_line [] = [].
Proof. split; reflexivity. Qed.

(* the continuation line on top is never blank, so the replaced line is never trimmed as a
   trailing blank line *)
Lemma continuation_protects c rl : is_cont c = true -> forall n2,
  drop_while_lines (fun l => is_blank (ln_val l)) (mkLine n2 (rstrip c) :: rl) = mkLine n2 (rstrip c) :: rl.
Proof.
  intros Hc n2. cbn [drop_while_lines ln_val]. destruct (is_cont_facts c Hc) as [Hb _].
  destruct (is_blank (rstrip c)) eqn:E; [|reflexivity]. apply blank_rstrip in E. congruence.
Qed.
