(* Proofs for C01/C02: compare_strings computes the key order; the order laws. *)
From Coq Require Import NArith ZArith List Bool Lia.
From DI Require Import Result PyStr PyStrFacts Version Dpkg OrderFacts.
Import ListNotations.
Open Scope N_scope.

(* ---------- finite facts about the allowed characters ---------- *)

Definition all_below (n : nat) (P : N -> bool) : bool := forallb P (map N.of_nat (seq 0 n)).

Lemma all_below_spec n P : all_below n P = true -> forall c, c < N.of_nat n -> P c = true.
Proof.
  unfold all_below. rewrite forallb_forall. intros H c Hc. apply H.
  apply in_map_iff. exists (N.to_nat c). split; [apply N2Nat.id|].
  apply in_seq. lia.
Qed.

Lemma class_A_below c : class_A c = true -> c < 128.
Proof.
  unfold class_A, is_ascii_alnum, is_ascii_alpha, is_ascii_upper, is_ascii_lower, is_ascii_digit.
  intros H.
  repeat (apply orb_true_iff in H; destruct H as [H|H]);
    repeat (apply andb_true_iff in H; destruct H as [? ?]);
    repeat match goal with
           | h : (_ <=? _) = true |- _ => apply N.leb_le in h
           | h : (_ =? _) = true |- _ => apply N.eqb_eq in h
           end; lia.
Qed.

Definition rk (c : char) : N := match rank c with Some r => r | None => 0 end.

Lemma allowed_facts c :
  class_A c = true ->
  is_pydigit c = is_ascii_digit c /\
  (is_ascii_digit c = true -> nd_value c = Some (c - 48)) /\
  (is_ascii_digit c = false -> rank c = Some (rk c)).
Proof.
  intros H. pose proof (class_A_below c H) as Hb.
  set (P := fun c => implb (class_A c)
                 (N.eqb (if is_pydigit c then 1 else 0) (if is_ascii_digit c then 1 else 0)
                  && (if is_ascii_digit c then match nd_value c with Some d => d =? c - 48 | None => false end else true)
                  && (if is_ascii_digit c then true else match rank c with Some _ => true | None => false end))).
  assert (G : P c = true) by (apply (all_below_spec 128 P); [vm_compute; reflexivity|exact Hb]).
  unfold P in G. clear P.
  rewrite H in G. simpl in G.
  apply andb_true_iff in G as [G G3]. apply andb_true_iff in G as [G1 G2].
  split; [|split].
  - destruct (is_pydigit c), (is_ascii_digit c); simpl in G1; try reflexivity; discriminate.
  - intros Hd. rewrite Hd in G2. destruct (nd_value c); [|discriminate]. apply N.eqb_eq in G2. now subst.
  - intros Hd. rewrite Hd in G3. unfold rk. destruct (rank c); [reflexivity|discriminate].
Qed.

(* the rank table orders like the reference ranks, also against the filler *)
Lemma rank_order_facts c1 c2 :
  class_A c1 = true -> class_A c2 = true ->
  is_ascii_digit c1 = false -> is_ascii_digit c2 = false ->
  (rk c1 ?= rk c2) = (krank c1 ?= krank c2) /\
  (rk c1 ?= rank_fill) = (krank c1 ?= kfill) /\
  (rank_fill ?= rk c1) = (kfill ?= krank c1).
Proof.
  intros H1 H2 D1 D2.
  pose proof (class_A_below c1 H1) as B1. pose proof (class_A_below c2 H2) as B2.
  set (P := fun c1 => all_below 128 (fun c2 =>
     implb (class_A c1 && class_A c2 && negb (is_ascii_digit c1) && negb (is_ascii_digit c2))
       (match (rk c1 ?= rk c2), (krank c1 ?= krank c2) with Eq, Eq | Lt, Lt | Gt, Gt => true | _, _ => false end
        && match (rk c1 ?= rank_fill), (krank c1 ?= kfill) with Eq, Eq | Lt, Lt | Gt, Gt => true | _, _ => false end
        && match (rank_fill ?= rk c1), (kfill ?= krank c1) with Eq, Eq | Lt, Lt | Gt, Gt => true | _, _ => false end))).
  assert (G : P c1 = true) by (apply (all_below_spec 128 P); [vm_compute; reflexivity|exact B1]).
  unfold P in G. pose proof (all_below_spec 128 _ G c2 B2) as G'. cbv beta in G'. clear G P. rename G' into G.
  rewrite H1, H2, D1, D2 in G. cbn [andb negb implb] in G.
  apply andb_true_iff in G as [G G3]. apply andb_true_iff in G as [G1 G2].
  repeat split.
  - destruct (rk c1 ?= rk c2), (krank c1 ?= krank c2); try reflexivity; discriminate.
  - destruct (rk c1 ?= rank_fill), (krank c1 ?= kfill); try reflexivity; discriminate.
  - destruct (rank_fill ?= rk c1), (kfill ?= krank c1); try reflexivity; discriminate.
Qed.

Definition allowed (s : str) : Prop := Forall (fun c => class_A c = true) s.

(* ---------- spans ---------- *)

Lemma non_digit_prefix_allowed s : allowed s -> non_digit_prefix s = span_nondigit s.
Proof.
  induction 1 as [|c s Hc _ IH]; [reflexivity|]. simpl.
  destruct (allowed_facts c Hc) as (E & _ & _). rewrite E, IH. reflexivity.
Qed.

Lemma digit_prefix_allowed s acc : allowed s -> digit_prefix acc s = Ok (span_digits acc s).
Proof.
  intros H. revert acc. induction H as [|c s Hc _ IH]; intros acc; [reflexivity|]. simpl.
  destruct (allowed_facts c Hc) as (E & Ed & _). rewrite E.
  destruct (is_ascii_digit c) eqn:D; [|reflexivity]. rewrite (Ed eq_refl). apply IH.
Qed.

Lemma span_nondigit_len s : (length (snd (span_nondigit s)) <= length s)%nat.
Proof.
  induction s as [|c s IH]; simpl; [lia|]. destruct (is_ascii_digit c); simpl; [lia|].
  destruct (span_nondigit s); simpl in *. lia.
Qed.

Lemma span_digits_len s acc : (length (snd (span_digits acc s)) <= length s)%nat.
Proof.
  revert acc; induction s as [|c s IH]; intros acc; simpl; [lia|].
  destruct (is_ascii_digit c); simpl; [|lia]. specialize (IH (acc * 10 + (c - 48))). lia.
Qed.

Lemma span_nondigit_allowed s : allowed s -> allowed (fst (span_nondigit s)) /\ allowed (snd (span_nondigit s)).
Proof.
  induction 1 as [|c s Hc Hs IH]; simpl; [split; constructor|].
  destruct (is_ascii_digit c); simpl; [split; [constructor|now constructor]|].
  destruct (span_nondigit s); simpl in *. destruct IH. split; [now constructor|assumption].
Qed.

Lemma span_nondigit_nodigit s : Forall (fun c => is_ascii_digit c = false) (fst (span_nondigit s)).
Proof.
  induction s as [|c s IH]; simpl; [constructor|]. destruct (is_ascii_digit c) eqn:D; simpl; [constructor|].
  destruct (span_nondigit s); simpl in *. now constructor.
Qed.

Lemma span_digits_allowed s acc : allowed s -> allowed (snd (span_digits acc s)).
Proof.
  intros H; revert acc; induction H as [|c s Hc Hs IH]; intros acc; simpl; [constructor|].
  destruct (is_ascii_digit c); simpl; [apply IH|now constructor].
Qed.

(* one block and the remaining string *)
Definition blk_rest (s : str) : block * str :=
  let '(p, r) := span_nondigit s in
  let '(d, r') := span_digits 0 r in
  ((map krank p, d), r').

Lemma blk_rest_length s : (length (snd (blk_rest s)) <= length s)%nat /\
                          (s <> [] -> (length (snd (blk_rest s)) < length s)%nat).
Proof.
  unfold blk_rest. destruct s as [|c s]; [simpl; split; [lia|congruence]|].
  cbn [span_nondigit]. destruct (is_ascii_digit c) eqn:D.
  - cbn [span_digits]. rewrite D. generalize (0 * 10 + (c - 48)). intros acc.
    pose proof (span_digits_len s acc) as L. destruct (span_digits acc s) as [d r'].
    cbn [snd length] in *. split; intros; lia.
  - pose proof (span_nondigit_len s) as L1. destruct (span_nondigit s) as [p r]. cbn [snd] in L1.
    pose proof (span_digits_len r 0) as L2. destruct (span_digits 0 r) as [d r'].
    cbn [snd length] in *. split; intros; lia.
Qed.

Lemma blk_rest_allowed s : allowed s -> allowed (snd (blk_rest s)).
Proof.
  intros H. unfold blk_rest. pose proof (span_nondigit_allowed s H) as [_ H2].
  destruct (span_nondigit s) as [p r]. simpl in H2.
  pose proof (span_digits_allowed r 0 H2) as H3. destruct (span_digits 0 r) as [d r']. exact H3.
Qed.

(* ---------- key ---------- *)

Lemma key_fuel_step f s :
  s <> [] -> key_fuel (S f) s = fst (blk_rest s) :: key_fuel f (snd (blk_rest s)).
Proof.
  intros Hne. destruct s as [|c s]; [contradiction|]. unfold blk_rest.
  cbn [key_fuel]. destruct (span_nondigit (c :: s)) as [p r]. destruct (span_digits 0 r) as [d r']. reflexivity.
Qed.

Lemma key_fuel_enough f s : (length s <= f)%nat -> key_fuel f s = key s.
Proof.
  unfold key. revert s. induction f as [f IH] using lt_wf_ind. intros s Hl.
  destruct s as [|c s]; [destruct f; reflexivity|].
  destruct f as [|f]; [simpl in Hl; lia|].
  assert (Hne : c :: s <> []) by discriminate.
  rewrite key_fuel_step by exact Hne.
  change (length (c :: s)) with (S (length s)). rewrite key_fuel_step by exact Hne. f_equal.
  destruct (blk_rest_length (c :: s)) as [_ L]. specialize (L Hne). simpl in L, Hl.
  rewrite (IH f) by lia. symmetry. apply (IH (length s)); lia.
Qed.

Lemma key_nil : key [] = []. Proof. reflexivity. Qed.

Lemma key_step s : s <> [] -> key s = fst (blk_rest s) :: key (snd (blk_rest s)).
Proof.
  intros Hne. unfold key at 1. destruct s as [|c s]; [contradiction|].
  change (length (c :: s)) with (S (length s)). rewrite key_fuel_step by exact Hne. f_equal.
  apply key_fuel_enough. destruct (blk_rest_length (c :: s)) as [_ L]. specialize (L Hne). simpl in L. lia.
Qed.

Lemma cmp_block_ok : CmpOK cmp_block.
Proof. apply (cmp_pair_ok (plex N.compare kfill) N.compare); [apply plex_ok|]; apply N_compare_ok. Qed.

Lemma cmp_key_ok : CmpOK cmp_key.
Proof. apply plex_ok. apply cmp_block_ok. Qed.

Lemma hdd_key s : hdd empty_block (key s) = fst (blk_rest s).
Proof. destruct s as [|c s]; [reflexivity|]. rewrite key_step by discriminate. reflexivity. Qed.

Lemma tl_key s : tl (key s) = key (snd (blk_rest s)).
Proof. destruct s as [|c s]; [reflexivity|]. rewrite key_step by discriminate. reflexivity. Qed.

Lemma cmp_key_step x y :
  cmp_key (key x) (key y) =
  match cmp_block (fst (blk_rest x)) (fst (blk_rest y)) with
  | Eq => cmp_key (key (snd (blk_rest x))) (key (snd (blk_rest y)))
  | c => c
  end.
Proof.
  unfold cmp_key. rewrite (plex_step cmp_block empty_block cmp_block_ok).
  now rewrite !hdd_key, !tl_key.
Qed.

(* ---------- the prefix comparison is the rank-list comparison ---------- *)

Definition nondigits (p : str) : Prop := Forall (fun c => is_ascii_digit c = false) p.

Lemma cmp_prefix_ranks p1 p2 :
  allowed p1 -> allowed p2 -> nondigits p1 -> nondigits p2 ->
  cmp_prefix p1 p2 = Ok (Z_of_cmp (cmp_ranklist (map krank p1) (map krank p2))).
Proof.
  intros A1; revert p2; induction A1 as [|c1 p1 Hc1 A1 IH]; intros p2 A2 N1 N2.
  - (* p1 = [] *)
    induction A2 as [|c2 p2 Hc2 A2 IH2]; [reflexivity|].
    inversion N2 as [|? ? D2 N2']; subst.
    destruct (allowed_facts c2 Hc2) as (_ & _ & R2). specialize (R2 D2).
    destruct (rank_order_facts c2 c2 Hc2 Hc2 D2 D2) as (_ & _ & F).
    simpl map. unfold cmp_ranklist. cbn [plex]. cbn [cmp_prefix].
    rewrite R2. cbn [cmp_ranks]. rewrite F.
    destruct (kfill ?= krank c2); [|reflexivity|reflexivity].
    specialize (IH2 N2'). simpl map in IH2. unfold cmp_ranklist in IH2. cbn [cmp_prefix plex] in IH2. exact IH2.
  - inversion N1 as [|? ? D1 N1']; subst.
    destruct (allowed_facts c1 Hc1) as (_ & _ & R1). specialize (R1 D1).
    destruct A2 as [|c2 p2 Hc2 A2].
    + destruct (rank_order_facts c1 c1 Hc1 Hc1 D1 D1) as (_ & F & _).
      simpl map. unfold cmp_ranklist. cbn [plex cmp_prefix]. rewrite R1. cbn [cmp_ranks]. rewrite F.
      destruct (krank c1 ?= kfill); [|reflexivity|reflexivity].
      specialize (IH [] (Forall_nil _) N1' (Forall_nil _)). exact IH.
    + inversion N2 as [|? ? D2 N2']; subst.
      destruct (allowed_facts c2 Hc2) as (_ & _ & R2). specialize (R2 D2).
      destruct (rank_order_facts c1 c2 Hc1 Hc2 D1 D2) as (F & _ & _).
      simpl map. unfold cmp_ranklist. cbn [plex cmp_prefix]. rewrite R1, R2. cbn [cmp_ranks]. rewrite F.
      destruct (krank c1 ?= krank c2); [|reflexivity|reflexivity].
      exact (IH p2 A2 N1' N2').
Qed.

Lemma cmp_prefix_or_eq p1 p2 :
  allowed p1 -> allowed p2 -> nondigits p1 -> nondigits p2 ->
  (if str_eqb p1 p2 then Ok 0%Z else cmp_prefix p1 p2) =
  Ok (Z_of_cmp (cmp_ranklist (map krank p1) (map krank p2))).
Proof.
  intros A1 A2 N1 N2. destruct (str_eqb p1 p2) eqn:E; [|now apply cmp_prefix_ranks].
  apply str_eqb_eq in E. subst p2. unfold cmp_ranklist.
  now rewrite (cmp_refl (plex_ok N.compare kfill N_compare_ok)).
Qed.

(* ---------- compare_strings is the key order ---------- *)

Lemma Z_of_cmp_eq0 c : (Z_of_cmp c =? 0)%Z = match c with Eq => true | _ => false end.
Proof. destruct c; reflexivity. Qed.

Definition cs_body (f : nat) (v1 v2 : str) : result Z :=
  let '(p1, r1) := non_digit_prefix v1 in
  let '(p2, r2) := non_digit_prefix v2 in
  do c <- (if str_eqb p1 p2 then Ok 0%Z else cmp_prefix p1 p2);
  if negb (c =? 0)%Z then Ok c
  else
    do x1 <- digit_prefix 0 r1;
    do x2 <- digit_prefix 0 r2;
    let '(d1, r1') := x1 in
    let '(d2, r2') := x2 in
    if d1 <? d2 then Ok (-1)%Z
    else if d2 <? d1 then Ok 1%Z
    else compare_strings_fuel f r1' r2'.

Lemma cs_step f x y : (x <> [] \/ y <> []) -> compare_strings_fuel (S f) x y = cs_body f x y.
Proof. intros H. destruct x, y; try reflexivity. destruct H; contradiction. Qed.

Lemma compare_strings_fuel_key fuel x y :
  allowed x -> allowed y -> (length x + length y <= fuel)%nat ->
  compare_strings_fuel fuel x y = Ok (Z_of_cmp (cmp_key (key x) (key y))).
Proof.
  revert x y. induction fuel as [|f IH]; intros x y Ax Ay Hl.
  - destruct x, y; simpl in Hl; try lia. reflexivity.
  - assert (Hcase : (x = [] /\ y = []) \/ (x <> [] \/ y <> [])).
    { destruct x; [|right; left; discriminate]. destruct y; [left; split; reflexivity|right; right; discriminate]. }
    destruct Hcase as [[-> ->]|Hne]; [reflexivity|].
    rewrite cs_step by exact Hne. unfold cs_body.
    rewrite cmp_key_step.
    pose proof (blk_rest_length x) as [Lx Lx']. pose proof (blk_rest_length y) as [Ly Ly'].
    pose proof (blk_rest_allowed x Ax) as Rx. pose proof (blk_rest_allowed y Ay) as Ry.
    unfold blk_rest in *.
    rewrite (non_digit_prefix_allowed x Ax), (non_digit_prefix_allowed y Ay).
    pose proof (span_nondigit_allowed x Ax) as [Ap1 Ar1]. pose proof (span_nondigit_allowed y Ay) as [Ap2 Ar2].
    pose proof (span_nondigit_nodigit x) as Np1. pose proof (span_nondigit_nodigit y) as Np2.
    destruct (span_nondigit x) as [p1 r1]. destruct (span_nondigit y) as [p2 r2].
    cbn [fst snd] in *.
    rewrite (cmp_prefix_or_eq p1 p2 Ap1 Ap2 Np1 Np2). cbn [bind].
    rewrite Z_of_cmp_eq0.
    rewrite (digit_prefix_allowed r1 0 Ar1), (digit_prefix_allowed r2 0 Ar2).
    destruct (span_digits 0 r1) as [d1 r1']. destruct (span_digits 0 r2) as [d2 r2'].
    cbn [fst snd] in *. unfold cmp_block. cbn [fst snd].
    destruct (cmp_ranklist (map krank p1) (map krank p2)); cbn [negb bind]; try reflexivity.
    destruct (d1 ?= d2) eqn:Ed.
    + apply N.compare_eq in Ed. subst d2. rewrite N.ltb_irrefl.
      apply IH; try assumption.
      destruct Hne as [Hx|Hy]; [specialize (Lx' Hx)|specialize (Ly' Hy)]; lia.
    + apply N.compare_lt_iff in Ed. apply N.ltb_lt in Ed. now rewrite Ed.
    + apply N.compare_gt_iff in Ed. assert (E1 : d1 <? d2 = false) by (apply N.ltb_ge; lia).
      apply N.ltb_lt in Ed. now rewrite E1, Ed.
Qed.

Theorem compare_strings_key x y :
  allowed x -> allowed y ->
  compare_strings x y = Ok (Z_of_cmp (cmp_key (key x) (key y))).
Proof. intros Ax Ay. unfold compare_strings. apply compare_strings_fuel_key; [assumption|assumption|lia]. Qed.
