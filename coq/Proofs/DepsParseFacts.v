(* Proofs for C14: a rendered alternative parses to the structure it spells. *)
From Coq Require Import String.
From Coq Require Import Arith NArith List Bool Lia.
From DI Require Import Result PyStr PyStrFacts Deps DepsGrammar.
Import ListNotations.
Open Scope N_scope.

(* ---------- generic string lemmas ---------- *)

Lemma take_drop_app (p : char -> bool) a b :
  Forall (fun c => p c = true) a -> (match b with [] => True | c :: _ => p c = false end) ->
  take_while p (a ++ b) = a /\ drop_while p (a ++ b) = b.
Proof.
  induction 1 as [|c a Hc _ IH]; intros Hb; cbn [app].
  - destruct b as [|c b]; [split; reflexivity|]. cbn. rewrite Hb. split; reflexivity.
  - cbn [take_while drop_while]. rewrite Hc. destruct (IH Hb) as [-> ->]. split; reflexivity.
Qed.

Lemma ws_forallb w : ws w -> forallb is_space w = true.
Proof. intros H. apply forallb_forall. intros c Hc. unfold ws in H. rewrite Forall_forall in H. now apply H. Qed.

Lemma spaces_ws w : spaces w -> ws w.
Proof. intros H. eapply Forall_impl; [|exact H]. intros c ->. reflexivity. Qed.

Lemma drop_ws w b : ws w -> (match b with [] => True | c :: _ => is_space c = false end) -> drop_while is_space (w ++ b) = b.
Proof. intros Hw Hb. apply take_drop_app; assumption. Qed.

(* stripping white space around something that starts and ends with non-space characters *)
Lemma strip_pad w1 x w2 : ws w1 -> ws w2 -> x <> [] ->
  (match x with c :: _ => is_space c = false | [] => True end) ->
  (match rev x with c :: _ => is_space c = false | [] => True end) ->
  strip (w1 ++ x ++ w2) = x.
Proof.
  intros H1 H2 Hne Hh Hl. unfold strip, strip_by, lstrip_by.
  assert (E1 : drop_while is_space (w1 ++ x ++ w2) = x ++ w2).
  { apply drop_ws; [exact H1|]. destruct x; [contradiction|exact Hh]. }
  rewrite E1. rewrite rstrip_by_app_all by now apply ws_forallb.
  destruct (exists_last Hne) as (x' & c & ->). rewrite rev_app_distr in Hl. cbn in Hl.
  now apply rstrip_by_snoc_keep.
Qed.

(* ---------- split_on_ops on  pre op post ---------- *)

Definition no_op (s : str) : Prop := Forall (fun c => is_op_char c = false) s.
Definition all_op (s : str) : Prop := Forall (fun c => is_op_char c = true) s.

Lemma split_ops_post post : no_op post -> forall cur, split_on_ops_aux cur [] false post = [rev cur ++ post].
Proof.
  induction 1 as [|c post Hc _ IH]; intros cur; cbn [split_on_ops_aux]; [now rewrite app_nil_r|].
  rewrite Hc. rewrite IH. cbn [rev]. now rewrite <- app_assoc.
Qed.

Lemma split_ops_op o : all_op o -> forall ops post, no_op post -> post <> [] ->
  split_on_ops_aux [] ops true (o ++ post) = [rev ops ++ o; post].
Proof.
  induction 1 as [|c o Hc _ IH]; intros ops post Hp Hne; cbn [app].
  - destruct post as [|c post]; [contradiction|]. inversion Hp as [|? ? Hc Hp']; subst.
    cbn [split_on_ops_aux]. rewrite Hc. rewrite app_nil_r. f_equal.
    rewrite (split_ops_post post Hp' [c]). reflexivity.
  - cbn [split_on_ops_aux]. rewrite Hc. rewrite IH by assumption. cbn [rev]. now rewrite <- app_assoc.
Qed.

Lemma split_ops_shape pre o post : no_op pre -> all_op o -> o <> [] -> no_op post -> post <> [] ->
  split_on_ops (pre ++ o ++ post) = [pre; o; post].
Proof.
  intros Hpre Ho Hone Hpost Hpne. unfold split_on_ops.
  assert (G : forall cur, split_on_ops_aux cur [] false (pre ++ o ++ post) = [rev cur ++ pre; o; post]).
  { induction Hpre as [|c pre Hc _ IH]; intros cur.
    - cbn [app]. destruct o as [|c o]; [contradiction|]. inversion Ho as [|? ? Hc Ho']; subst.
      cbn [app split_on_ops_aux]. rewrite Hc. rewrite app_nil_r. f_equal.
      rewrite (split_ops_op o Ho' [c] post Hpost Hpne). reflexivity.
    - cbn [app split_on_ops_aux]. rewrite Hc. rewrite IH. cbn [rev]. now rewrite <- app_assoc. }
  apply (G []).
Qed.

(* ---------- split_ws on padded tokens ---------- *)

Definition nospace (s : str) : Prop := Forall (fun c => is_space c = false) s.

Lemma split_ws_token t : nospace t -> forall cur rest,
  split_ws_aux cur (t ++ rest) = split_ws_aux (rev t ++ cur) rest.
Proof.
  induction 1 as [|c t Hc _ IH]; intros cur rest; [reflexivity|].
  cbn [app split_ws_aux]. rewrite Hc. rewrite IH. cbn [rev]. now rewrite <- app_assoc.
Qed.

Lemma split_ws_space w : ws w -> forall rest, split_ws_aux [] (w ++ rest) = split_ws_aux [] rest.
Proof. induction 1 as [|c w Hc _ IH]; intros rest; [reflexivity|]. cbn [app split_ws_aux]. now rewrite Hc. Qed.

Lemma split_ws_space_flush w cur : ws w -> w <> [] -> cur <> [] -> forall rest,
  split_ws_aux cur (w ++ rest) = rev cur :: split_ws_aux [] rest.
Proof.
  intros Hw Hne Hc rest. destruct w as [|c w]; [contradiction|]. inversion Hw as [|? ? Hcs Hw']; subst.
  cbn [app split_ws_aux]. rewrite Hcs. destruct cur; [contradiction|]. f_equal. now apply split_ws_space.
Qed.

Lemma rev_nonempty {A} (l : list A) : l <> [] -> rev l <> [].
Proof. intros H E. apply H. rewrite <- (rev_involutive l), E. reflexivity. Qed.

Lemma split_ws_word_end t : nospace t -> t <> [] -> split_ws_aux [] t = [t].
Proof.
  intros Ht Hne. rewrite <- (app_nil_r t) at 1. rewrite split_ws_token by exact Ht. rewrite app_nil_r.
  cbn [split_ws_aux]. destruct (rev t) eqn:E; [exfalso; now apply (rev_nonempty t Hne)|].
  now rewrite <- E, rev_involutive.
Qed.

Lemma split_ws_word_then t w rest : nospace t -> t <> [] -> ws w -> w <> [] ->
  split_ws_aux [] (t ++ w ++ rest) = t :: split_ws_aux [] rest.
Proof.
  intros Ht Hne Hw Hwne. rewrite split_ws_token by exact Ht. rewrite app_nil_r.
  rewrite split_ws_space_flush by (try assumption; now apply rev_nonempty). now rewrite rev_involutive.
Qed.

Lemma split_ws_trail w : ws w -> split_ws_aux [] w = [].
Proof. intros H. rewrite <- (app_nil_r w). rewrite split_ws_space by exact H. reflexivity. Qed.

Lemma split_ws_interleave archs : forall seps trail,
  Forall (fun a => a <> [] /\ nospace a) archs -> archs <> [] ->
  length seps = pred (length archs) -> Forall (fun w => ws w /\ w <> []) seps -> ws trail ->
  split_ws_aux [] (interleave archs seps ++ trail) = archs.
Proof.
  induction archs as [|a archs IH]; intros seps trail Hf Hne Hl Hs Ht; [contradiction|].
  inversion Hf as [|? ? [Hane Ha] Hf']; subst.
  destruct archs as [|a2 archs].
  - cbn [interleave]. destruct trail as [|c trail].
    + rewrite app_nil_r. now apply split_ws_word_end.
    + rewrite <- (app_nil_r (c :: trail)). rewrite split_ws_word_then; try assumption; [|discriminate].
      reflexivity.
  - destruct seps as [|s seps]; [cbn in Hl; discriminate|]. inversion Hs as [|? ? [Hsw Hsne] Hs']; subst.
    cbn [interleave]. rewrite <- !app_assoc. rewrite split_ws_word_then by assumption. f_equal.
    apply IH; [exact Hf'|discriminate|cbn in Hl; cbn; lia|exact Hs'|exact Ht].
Qed.

(* ---------- one alternative ---------- *)

Lemma token_facts bad t : token bad t -> t <> [] /\ nospace t /\ Forall (fun c => ~ In c bad) t.
Proof.
  intros [Hne Hf]. split; [exact Hne|]. split; eapply Forall_impl; try exact Hf; intros c [H1 H2]; assumption.
Qed.

Lemma wf_op_facts o : wf_op o -> o <> [] /\ all_op o /\ nospace o /\ ~ In 41 o.
Proof.
  unfold wf_op. cbn [In]. intros H.
  repeat (destruct H as [<-|H]; [repeat split; try discriminate; try (repeat constructor); cbn; intuition discriminate|]).
  contradiction.
Qed.

Lemma ws_no_op w : ws w -> no_op w.
Proof.
  intros H. eapply Forall_impl; [|exact H]. intros c Hc. unfold is_op_char.
  destruct (N.eqb_spec c 60) as [->|]; [discriminate|]. destruct (N.eqb_spec c 62) as [->|]; [discriminate|].
  destruct (N.eqb_spec c 61) as [->|]; [discriminate|]. reflexivity.
Qed.

Lemma ws_not_In c w : is_space c = false -> ws w -> ~ In c w.
Proof. intros Hc Hw Hi. unfold ws in Hw. rewrite Forall_forall in Hw. specialize (Hw _ Hi). congruence. Qed.

Lemma no_op_app a b : no_op a -> no_op b -> no_op (a ++ b).
Proof. intros. apply Forall_app. now split. Qed.

Lemma version_no_op v : wf_version v -> no_op v /\ ~ In 41 v.
Proof.
  intros Hv. destruct (token_facts _ _ Hv) as (_ & _ & Hbad). split.
  - eapply Forall_impl; [|exact Hbad]. intros c Hc. unfold is_op_char.
    destruct (N.eqb_spec c 60) as [->|]; [exfalso; apply Hc; cbn; auto|].
    destruct (N.eqb_spec c 62) as [->|]; [exfalso; apply Hc; cbn; auto|].
    destruct (N.eqb_spec c 61) as [->|]; [exfalso; apply Hc; cbn; auto|]. reflexivity.
  - intros Hi. rewrite Forall_forall in Hbad. apply (Hbad _ Hi). cbn. auto.
Qed.

Lemma nospace_ends t : nospace t -> t <> [] ->
  (match t with c :: _ => is_space c = false | [] => True end) /\
  (match rev t with c :: _ => is_space c = false | [] => True end).
Proof.
  intros H Hne. split.
  - destruct t; [exact I|now inversion H].
  - destruct (exists_last Hne) as (t' & c & ->). rewrite rev_app_distr. cbn.
    apply Forall_app in H as [_ H]. now inversion H.
Qed.

Lemma all_space_ws w : ws w -> all_space w = true.
Proof. apply ws_forallb. Qed.

Lemma not_all_space_nospace t : nospace t -> t <> [] -> all_space t = false.
Proof.
  intros H Hne. destruct t as [|c t]; [contradiction|]. inversion H; subst. unfold all_space. cbn.
  now replace (is_space c) with false by congruence.
Qed.

Lemma all_space_app_false a b d : nospace b -> b <> [] -> all_space (a ++ b ++ d) = false.
Proof.
  intros Hb Hne. unfold all_space. rewrite !forallb_app.
  fold (all_space b). rewrite (not_all_space_nospace b Hb Hne). now rewrite andb_false_r.
Qed.

(* operator and version from the text between the parentheses *)
Lemma ver_tokens w1 o w2 v w3 : ws w1 -> ws w2 -> ws w3 -> wf_op o -> wf_version v ->
  nonblank_stripped (split_on_ops (w1 ++ o ++ w2 ++ v ++ w3)) = [o; v].
Proof.
  intros H1 H2 H3 Ho Hv. destruct (wf_op_facts o Ho) as (One & Oall & Ons & _).
  destruct (token_facts _ _ Hv) as (Vne & Vns & _). destruct (version_no_op v Hv) as [Vno _].
  rewrite split_ops_shape; try assumption.
  - unfold nonblank_stripped. cbn [filter].
    rewrite (all_space_ws w1 H1). cbn [negb]. rewrite (not_all_space_nospace o Ons One). cbn [negb].
    rewrite (all_space_app_false w2 v w3 Vns Vne). cbn [negb map]. f_equal.
    + destruct (nospace_ends o Ons One) as [Hh Hl].
      rewrite <- (app_nil_r o) at 1. change o with ([] ++ o) at 1. rewrite <- app_assoc.
      apply (strip_pad [] o []); try assumption; constructor.
    + f_equal. destruct (nospace_ends v Vns Vne) as [Hh Hl]. now apply strip_pad.
  - now apply ws_no_op.
  - apply no_op_app; [now apply ws_no_op|]. apply no_op_app; [exact Vno|now apply ws_no_op].
  - intros E. apply app_eq_nil in E as [_ E]. apply app_eq_nil in E as [E _]. contradiction.
Qed.

Lemma interleave_nonempty archs seps : archs <> [] -> Forall (fun a => a <> []) archs -> interleave archs seps <> [].
Proof.
  destruct archs as [|a archs]; [contradiction|]. intros _ H. inversion H; subst.
  destruct archs; cbn [interleave]; [assumption|]. destruct seps; intros E; apply app_eq_nil in E as [E _]; contradiction.
Qed.

Lemma interleave_no c archs : forall seps, Forall (fun a => ~ In c a) archs -> Forall (fun w => ~ In c w) seps ->
  ~ In c (interleave archs seps).
Proof.
  induction archs as [|a archs IH]; intros seps Ha Hs; [intros []|].
  inversion Ha as [|? ? Hca Ha']; subst. destruct archs as [|a2 archs]; [exact Hca|].
  destruct seps as [|s seps]; cbn [interleave]; intros Hi.
  - apply in_app_or in Hi as [Hi|Hi]; [contradiction|]. now apply (IH [] Ha' (Forall_nil _)).
  - inversion Hs as [|? ? Hcs Hs']; subst.
    apply in_app_or in Hi as [Hi|Hi]; [contradiction|]. apply in_app_or in Hi as [Hi|Hi]; [contradiction|].
    now apply (IH seps Ha' Hs').
Qed.

Definition arch_text (l : layout) (archs : list str) : str :=
  l_arch_lead l ++ interleave archs (l_arch_sep l) ++ l_arch_trail l.

Lemma arch_tokens l archs : archs <> [] -> Forall wf_arch archs -> ws (l_arch_lead l) -> ws (l_arch_trail l) ->
  length (l_arch_sep l) = pred (length archs) -> Forall (fun w => ws w /\ w <> []) (l_arch_sep l) ->
  split_ws (arch_text l archs) = archs /\ ~ In 93 (arch_text l archs) /\ arch_text l archs <> [].
Proof.
  intros Hne Hf Hlead Htrail Hlen Hseps. unfold arch_text, split_ws.
  assert (Hf' : Forall (fun a => a <> [] /\ nospace a) archs).
  { eapply Forall_impl; [|exact Hf]. intros a Ha. destruct (token_facts _ _ Ha) as (H1 & H2 & _). now split. }
  split; [|split].
  - rewrite split_ws_space by exact Hlead. now apply split_ws_interleave.
  - intros Hi. apply in_app_or in Hi as [Hi|Hi]; [revert Hi; now apply ws_not_In|].
    apply in_app_or in Hi as [Hi|Hi]; [|revert Hi; now apply ws_not_In].
    revert Hi. apply interleave_no.
    + eapply Forall_impl; [|exact Hf]. intros a Ha Hi. destruct (token_facts _ _ Ha) as (_ & _ & Hb).
      rewrite Forall_forall in Hb. apply (Hb _ Hi). cbn. auto.
    + eapply Forall_impl; [|exact Hseps]. intros w [Hw _]. now apply ws_not_In.
  - intros E. apply app_eq_nil in E as [_ E]. apply app_eq_nil in E as [E _]. revert E. apply interleave_nonempty; [exact Hne|].
    eapply Forall_impl; [|exact Hf']. now intros a [H _].
Qed.

Lemma bracket_group_ok op cl g rest : op <> cl -> g <> [] -> ~ In cl g ->
  bracket_group op cl (op :: g ++ cl :: rest) = Some (g, rest).
Proof.
  intros _ Hne Hn. unfold bracket_group. rewrite N.eqb_refl. rewrite partition_char_app by exact Hn.
  destruct g; [contradiction|reflexivity].
Qed.

Lemma bracket_group_none op cl s : (match s with c :: _ => c <> op | [] => True end) -> bracket_group op cl s = None.
Proof. destruct s as [|c s]; [reflexivity|]. intros H. unfold bracket_group. apply N.eqb_neq in H. now rewrite H. Qed.

Lemma name_char_facts n : wf_name n -> Forall (fun c => name_char c = true) n.
Proof.
  intros Hn. destruct (token_facts _ _ Hn) as (_ & Hns & Hbad).
  apply Forall_forall. intros c Hc. unfold nospace in Hns. rewrite Forall_forall in Hns, Hbad.
  specialize (Hns c Hc). specialize (Hbad c Hc). unfold name_char.
  destruct (N.eqb_spec c 40) as [->|]; [exfalso; apply Hbad; cbn; auto|].
  destruct (N.eqb_spec c 91) as [->|]; [exfalso; apply Hbad; cbn; auto|].
  destruct (N.eqb_spec c 32) as [->|]; [discriminate Hns|]. reflexivity.
Qed.

Lemma spaces_head_not_name w rest : spaces w ->
  (match rest with c :: _ => name_char c = false | [] => True end) ->
  match w ++ rest with c :: _ => name_char c = false | [] => True end.
Proof. intros Hw Hr. destruct w as [|c w]; [exact Hr|]. inversion Hw; subst. reflexivity. Qed.

(* a rendered alternative parses to the structure it spells, whatever the layout *)
Theorem parse_rendered_alt l a : wf_alt a -> wf_layout a l ->
  parse_relationship (render_alt l a) = Ok (tree_alt a).
Proof.
  intros (Hn & Hv & Harch) (Lbp & L1 & L2 & L3 & Lbb & Llead & Ltrail & Llen & Lseps).
  unfold parse_relationship, rel_expr_match, render_alt, tree_alt.
  pose proof (name_char_facts _ Hn) as Hnc. destruct (token_facts _ _ Hn) as (Nne & _ & _).
  (* the architecture part, shared by both cases *)
  set (A := match g_archs a with
            | [] => []
            | archs => l_before_bracket l ++ [91] ++ l_arch_lead l ++ interleave archs (l_arch_sep l) ++ l_arch_trail l ++ [93]
            end).
  assert (HA : forall wsb, ws wsb -> l_before_bracket l = wsb ->
               (let s3 := drop_while is_space A in
                match bracket_group 91 93 s3 with Some (g, _) => Some g | None => None end) =
               match g_archs a with [] => None | archs => Some (arch_text l archs) end /\
               (match g_archs a with [] => True | archs => split_ws (arch_text l archs) = archs end)).
  { intros wsb Hws Ewsb. subst A. destruct (g_archs a) as [|a1 archs] eqn:Ea; [split; [reflexivity|exact I]|].
    destruct (arch_tokens l (a1 :: archs)) as (T1 & T2 & T3); try assumption; [discriminate|].
    cbv zeta. rewrite Ewsb. rewrite drop_ws by (try exact Hws; reflexivity).
    change ([91] ++ l_arch_lead l ++ interleave (a1 :: archs) (l_arch_sep l) ++ l_arch_trail l ++ [93])
      with (91 :: (l_arch_lead l ++ interleave (a1 :: archs) (l_arch_sep l) ++ l_arch_trail l ++ [93])).
    replace (l_arch_lead l ++ interleave (a1 :: archs) (l_arch_sep l) ++ l_arch_trail l ++ [93])
      with (arch_text l (a1 :: archs) ++ 93 :: []) by (unfold arch_text; now rewrite <- !app_assoc).
    rewrite bracket_group_ok; [|discriminate|exact T3|exact T2]. split; [reflexivity|exact T1]. }
  destruct (g_ver a) as [[o v]|] eqn:Ev.
  - (* versioned *)
    destruct Hv as [Ho Hvv]. destruct (wf_op_facts o Ho) as (One & _ & _ & O41).
    destruct (version_no_op v Hvv) as [_ V41].
    set (X := l_in1 l ++ o ++ l_in2 l ++ v ++ l_in3 l).
    assert (HX : X <> [] /\ ~ In 41 X).
    { split.
      - subst X. intros E. apply app_eq_nil in E as [_ E]. apply app_eq_nil in E as [E _]. contradiction.
      - subst X. intros Hi. repeat (apply in_app_or in Hi as [Hi|Hi]); try contradiction;
          revert Hi; apply ws_not_In; try reflexivity; assumption. }
    destruct HX as [Xne X41].
    replace (g_name a ++ (l_before_paren l ++ [40] ++ l_in1 l ++ o ++ l_in2 l ++ v ++ l_in3 l ++ [41]) ++ A)
      with (g_name a ++ (l_before_paren l ++ 40 :: X ++ 41 :: A))
      by (subst X; now rewrite <- !app_assoc).
    destruct (take_drop_app name_char (g_name a) (l_before_paren l ++ 40 :: X ++ 41 :: A) Hnc) as [Et Ed].
    { apply spaces_head_not_name; [exact Lbp|reflexivity]. }
    rewrite Et, Ed. destruct (g_name a) as [|c0 n0] eqn:En; [contradiction|]. rewrite <- En in *.
    rewrite drop_ws by (try (apply spaces_ws; exact Lbp); reflexivity).
    rewrite bracket_group_ok; [|discriminate|exact Xne|exact X41].
    destruct (HA (l_before_bracket l) Lbb eq_refl) as [HA1 HA2]. cbv zeta in HA1. rewrite HA1.
    subst X. rewrite (ver_tokens _ _ _ _ _ L1 L2 L3 Ho Hvv).
    destruct (g_archs a) as [|a1 archs]; [reflexivity|]. now rewrite HA2.
  - (* bare name *)
    rewrite app_nil_l.
    assert (Hhead : match A with c :: _ => name_char c = false | [] => True end).
    { subst A. destruct (g_archs a); [exact I|]. apply spaces_head_not_name; [exact Lbb|reflexivity]. }
    destruct (take_drop_app name_char (g_name a) A Hnc Hhead) as [Et Ed]. rewrite Et, Ed.
    destruct (g_name a) as [|c0 n0] eqn:En; [contradiction|]. rewrite <- En in *.
    assert (Hs1 : bracket_group 40 41 (drop_while is_space A) = None).
    { apply bracket_group_none. subst A. destruct (g_archs a); [exact I|].
      rewrite drop_ws by (try (apply spaces_ws; exact Lbb); reflexivity). discriminate. }
    rewrite Hs1.
    assert (Hidem : drop_while is_space (drop_while is_space A) = drop_while is_space A) by apply drop_while_idem.
    rewrite Hidem.
    destruct (HA (l_before_bracket l) (spaces_ws _ Lbb) eq_refl) as [HA1 HA2]. cbv zeta in HA1. rewrite HA1.
    destruct (g_archs a) as [|a1 archs]; [reflexivity|]. now rewrite HA2.
Qed.

(* ---------- canonical spelling ---------- *)

Definition canonical_layout (a : alt) : layout :=
  mkLayout [32] [] [32] [] [32] [] (repeat [32] (pred (length (g_archs a)))) [].

Lemma interleave_join archs : interleave archs (repeat [32] (pred (length archs))) = join [32] archs.
Proof.
  induction archs as [|a archs IH]; [reflexivity|]. destruct archs as [|a2 archs]; [reflexivity|].
  cbn [length pred repeat interleave]. rewrite join_cons. f_equal. f_equal. exact IH.
Qed.

Theorem str_is_canonical a : rel_str (tree_alt a) = canonical_alt a.
Proof.
  destruct a as [n ver archs]. unfold tree_alt, canonical_alt. cbn [g_name g_ver g_archs].
  destruct ver as [[o v]|]; destruct archs as [|a1 archs]; cbn [rel_str]; unfold archs_str;
    rewrite ?app_nil_r, <- ?app_assoc; reflexivity.
Qed.

Lemma canonical_is_render a : canonical_alt a = render_alt (canonical_layout a) a.
Proof.
  unfold canonical_alt, render_alt, canonical_layout. cbn [l_before_paren l_in1 l_in2 l_in3 l_before_bracket l_arch_lead l_arch_sep l_arch_trail].
  destruct (g_ver a) as [[o v]|]; destruct (g_archs a) as [|a1 archs] eqn:Ea; try reflexivity.
  - rewrite interleave_join. cbn [app]. now rewrite <- !app_assoc.
  - rewrite interleave_join. cbn [app]. reflexivity.
Qed.

Lemma canonical_layout_wf a : wf_layout a (canonical_layout a).
Proof.
  unfold wf_layout, canonical_layout. cbn [l_before_paren l_in1 l_in2 l_in3 l_before_bracket l_arch_lead l_arch_sep l_arch_trail].
  repeat split; try (repeat constructor).
  - destruct (g_ver a); repeat constructor.
  - apply repeat_length.
  - apply Forall_forall. intros w Hw. apply repeat_spec in Hw. subst. split; [repeat constructor|discriminate].
Qed.

(* the string form of a parsed alternative parses back to an equal object *)
Theorem str_parse_roundtrip a : wf_alt a -> parse_relationship (rel_str (tree_alt a)) = Ok (tree_alt a).
Proof.
  intros H. rewrite str_is_canonical, canonical_is_render. apply parse_rendered_alt; [exact H|apply canonical_layout_wf].
Qed.

(* the names reported are the names mentioned *)
Theorem names_of_alt a : rel_names (tree_alt a) = [g_name a].
Proof. unfold tree_alt. destruct (g_ver a) as [[o v]|]; reflexivity. Qed.

Lemma names_or rs : rel_names (OrRel rs) = flat_map rel_names rs.
Proof. reflexivity. Qed.
Lemma names_and rs : rel_names (AndRel rs) = flat_map rel_names rs.
Proof. reflexivity. Qed.

(* a version clause with no operator, with nothing but an operator, or with two operators *)
Theorem bad_clause_no_operator n x : wf_name n -> wf_version x ->
  parse_relationship (n ++ lit " (" ++ x ++ [41]) = Raise ValueError.
Proof.
  intros Hn Hx. unfold parse_relationship, rel_expr_match.
  pose proof (name_char_facts _ Hn) as Hnc. destruct (token_facts _ _ Hn) as (Nne & _ & _).
  destruct (token_facts _ _ Hx) as (Xne & Xns & _). destruct (version_no_op x Hx) as [Xno X41].
  destruct (take_drop_app name_char n (lit " (" ++ x ++ [41]) Hnc) as [Et Ed]; [reflexivity|].
  rewrite Et, Ed. destruct n as [|c0 n0] eqn:En; [contradiction|]. rewrite <- En in *.
  change (lit " (" ++ x ++ [41]) with ([32] ++ 40 :: x ++ 41 :: []).
  rewrite drop_ws by (repeat constructor). rewrite bracket_group_ok; [|discriminate|exact Xne|exact X41].
  cbn [drop_while bracket_group].
  assert (E : split_on_ops x = [x]).
  { unfold split_on_ops. rewrite (split_ops_post x Xno []). reflexivity. }
  rewrite E. unfold nonblank_stripped. cbn [filter]. rewrite (not_all_space_nospace x Xns Xne). reflexivity.
Qed.

Theorem bad_clause_only_operator n o : wf_name n -> wf_op o ->
  parse_relationship (n ++ lit " (" ++ o ++ [41]) = Raise ValueError.
Proof.
  intros Hn Ho. unfold parse_relationship, rel_expr_match.
  pose proof (name_char_facts _ Hn) as Hnc. destruct (token_facts _ _ Hn) as (Nne & _ & _).
  destruct (wf_op_facts o Ho) as (One & Oall & Ons & O41).
  destruct (take_drop_app name_char n (lit " (" ++ o ++ [41]) Hnc) as [Et Ed]; [reflexivity|].
  rewrite Et, Ed. destruct n as [|c0 n0] eqn:En; [contradiction|]. rewrite <- En in *.
  change (lit " (" ++ o ++ [41]) with ([32] ++ 40 :: o ++ 41 :: []).
  rewrite drop_ws by (repeat constructor). rewrite bracket_group_ok; [|discriminate|exact One|exact O41].
  cbn [drop_while bracket_group].
  unfold wf_op in Ho. cbn [In] in Ho.
  repeat (destruct Ho as [<-|Ho]; [reflexivity|]). contradiction.
Qed.
