(* Proofs for C08: every word of a paragraph read as header fields reaches the returned mapping. *)
From Coq Require Import String.
From Coq Require Import Arith NArith List Bool Lia.
From DI Require Import Result PyStr PyStrFacts Codec Deb822 BlankFacts Debcon Email DebconFacts CopyrightFacts Copyright ParseFacts DepsParseFacts
  Grammar822Header Dep5Facts WordFacts ConserveFacts.
Import ListNotations.
Open Scope N_scope.

(* ---------- merging keeps every word of every value ---------- *)

Definition mkey (n : str) : str := strip (lower_ascii n).

Lemma lookup_put_eq k v (d : pydict str) : lookup k (dict_put k v d) = v.
Proof. unfold lookup. now rewrite dict_get_put_eq. Qed.

Lemma lookup_put_neq k k' v (d : pydict str) : k' <> k -> lookup k' (dict_put k v d) = lookup k' d.
Proof. intros H. unfold lookup. rewrite dict_get_put_neq; [reflexivity|]. now apply str_eqb_neq. Qed.

Lemma In_words_splitlines v ex : In v (splitlines ex) -> incl (words v) (words ex).
Proof.
  intros Hin w Hw. rewrite <- (words_splitlines ex). apply in_flat_map. now exists v.
Qed.

(* one step of the merge loop: the stored words only grow, and the words of the new value are stored *)
Lemma merge_one_words data n v :
  let k := mkey n in
  let v' := strip v in
  let data' := match dict_get k data with
               | Some existing =>
                   if mem_str v' (splitlines existing) then data
                   else dict_put k (join [10] (splitlines existing ++ [v'])) data
               | None => dict_put k v' data
               end in
  (forall k0, incl (words (lookup k0 data)) (words (lookup k0 data'))) /\ incl (words v) (words (lookup k data')).
Proof.
  cbv zeta. set (k := mkey n). set (v' := strip v).
  assert (Hv : words v' = words v) by apply words_strip.
  destruct (dict_get k data) as [ex|] eqn:Eg.
  - destruct (mem_str v' (splitlines ex)) eqn:Em.
    + split; [intros k0; apply incl_refl|]. apply mem_str_In in Em. rewrite <- Hv. unfold lookup. rewrite Eg. now apply In_words_splitlines.
    + assert (Ew : words (join [10] (splitlines ex ++ [v'])) = words ex ++ words v').
      { rewrite words_join by (discriminate || reflexivity). rewrite flat_map_app, words_splitlines. cbn [flat_map]. now rewrite app_nil_r. }
      split.
      * intros k0. destruct (list_eq_dec N.eq_dec k0 k) as [->|Hne].
        -- rewrite lookup_put_eq, Ew. unfold lookup. rewrite Eg. now apply incl_appl, incl_refl.
        -- rewrite lookup_put_neq by exact Hne. apply incl_refl.
      * rewrite lookup_put_eq, Ew, Hv. now apply incl_appr, incl_refl.
  - split.
    + intros k0. destruct (list_eq_dec N.eq_dec k0 k) as [->|Hne].
      * unfold lookup at 1. rewrite Eg. intros w [].
      * rewrite lookup_put_neq by exact Hne. apply incl_refl.
    + rewrite lookup_put_eq, Hv. apply incl_refl.
Qed.

Theorem merge_items_words items : forall data,
  (forall k0, incl (words (lookup k0 data)) (words (lookup k0 (merge_items items data)))) /\
  (forall n v, In (n, v) items -> incl (words v) (words (lookup (mkey n) (merge_items items data)))).
Proof.
  induction items as [|[n v] items IH]; intros data; [split; [intros k0; apply incl_refl|intros n v []]|].
  rewrite merge_step. cbv zeta. pose proof (merge_one_words data n v) as H1. cbv zeta in H1. fold (mkey n) in *.
  set (data' := match dict_get (mkey n) data with
                | Some existing => if mem_str (strip v) (splitlines existing) then data
                                   else dict_put (mkey n) (join [10] (splitlines existing ++ [strip v])) data
                | None => dict_put (mkey n) (strip v) data end) in *.
  assert (E : match dict_get (mkey n) data with
              | Some existing => if mem_str (strip v) (splitlines existing) then merge_items items data
                                 else merge_items items (dict_put (mkey n) (join [10] (splitlines existing ++ [strip v])) data)
              | None => merge_items items (dict_put (mkey n) (strip v) data) end = merge_items items data').
  { subst data'. destruct (dict_get (mkey n) data) as [ex|]; [destruct (mem_str _ _)|]; reflexivity. }
  rewrite E. destruct H1 as [Hmono Hnew]. destruct (IH data') as [IHm IHi]. split.
  - intros k0. eapply incl_tran; [apply Hmono|apply IHm].
  - intros n0 v0 [Heq|Hin]; [|now apply IHi]. inversion Heq; subst. eapply incl_tran; [exact Hnew|apply IHm].
Qed.

(* every key of the result comes from an item, every item gives a key *)
Lemma merge_items_keys items : forall data n v, In (n, v) items -> dict_get (mkey n) (merge_items items data) <> None.
Proof.
  induction items as [|[n0 v0] items IH]; intros data n v Hin; [contradiction|]. rewrite merge_step. cbv zeta. fold (mkey n0).
  assert (Hkeep : forall d k, dict_get k d <> None -> dict_get k (merge_items items d) <> None).
  { clear. induction items as [|[n v] items IH]; intros d k H; [exact H|]. rewrite merge_step. cbv zeta.
    destruct (dict_get (strip (lower_ascii n)) d) as [ex|] eqn:E; [destruct (mem_str _ _)|]; apply IH; try exact H.
    - destruct (list_eq_dec N.eq_dec k (strip (lower_ascii n))) as [->|Hne]; [rewrite dict_get_put_eq; discriminate|].
      rewrite dict_get_put_neq by now apply str_eqb_neq. exact H.
    - destruct (list_eq_dec N.eq_dec k (strip (lower_ascii n))) as [->|Hne]; [rewrite dict_get_put_eq; discriminate|].
      rewrite dict_get_put_neq by now apply str_eqb_neq. exact H. }
  destruct Hin as [Heq|Hin].
  - inversion Heq; subst. destruct (dict_get (mkey n) data) as [ex|] eqn:E; [destruct (mem_str _ _)|]; apply Hkeep.
    + rewrite E. discriminate.
    + rewrite dict_get_put_eq. discriminate.
    + rewrite dict_get_put_eq. discriminate.
  - destruct (dict_get (mkey n0) data) as [ex|]; [destruct (mem_str _ _)|]; now apply (IH _ n v).
Qed.

(* ---------- header lines ---------- *)

Definition ends_ws (l : str) : Prop := exists a c, l = a ++ [c] /\ is_space c = true.
Definition after_colon (l : str) : str := let '(_, _, v) := partition_char 58 l in v.
Definition hl_words (l : str) : list str :=
  match l with
  | c :: _ => if is_blank_tab c then words l else words (after_colon l)
  | [] => []
  end.

Lemma words_ends_ws_app l x : ends_ws l -> words (l ++ x) = words l ++ words x.
Proof.
  intros (a & c & -> & Hc). rewrite <- app_assoc. change ([c] ++ x) with ([c] ++ x).
  rewrite (words_app_sep a [c] x) by (discriminate || (cbn [forallb]; now rewrite Hc)).
  now rewrite (words_trail_space a [c]) by (cbn [forallb]; now rewrite Hc).
Qed.

Lemma words_concat ls : Forall ends_ws (removelast ls) -> words (concat ls) = flat_map words ls.
Proof.
  induction ls as [|l ls IH]; intros H; [reflexivity|]. cbn [concat flat_map]. destruct ls as [|l2 ls].
  - cbn [concat flat_map]. now rewrite !app_nil_r.
  - cbn [removelast] in H. inversion H as [|? ? Hl Hrest]; subst. rewrite words_ends_ws_app by exact Hl. f_equal. now apply IH.
Qed.

Lemma words_rstrip_sub (q : char -> bool) s : (forall c, q c = true -> is_space c = true) -> words (rstrip_by q s) = words s.
Proof.
  intros Hq. destruct (rstrip_by_prefix q s) as (r & E & Hr). rewrite E at 2. symmetry. apply words_trail_space.
  apply forallb_forall. intros c Hc. rewrite forallb_forall in Hr. now apply Hq, Hr.
Qed.

Lemma words_lstrip_sub_app (q : char -> bool) v x : (forall c, q c = true -> is_space c = true) ->
  words (lstrip_by q v ++ x) = words (v ++ x).
Proof.
  intros Hq. unfold lstrip_by. destruct (drop_while_suffix q v) as (a & E & Ha). rewrite E at 2. rewrite <- app_assoc.
  symmetry. apply words_lead_space. apply forallb_forall. intros c Hc. rewrite forallb_forall in Ha. now apply Hq, Ha.
Qed.

Lemma ends_ws_suffix (a v : str) : ends_ws (a ++ v) -> v <> [] -> ends_ws v.
Proof.
  intros (x & c & E & Hc) Hne. destruct (exists_last Hne) as (v' & c' & ->). rewrite app_assoc in E.
  apply app_inj_tail in E as [_ ->]. now exists v', c.
Qed.

Definition starts_nonblank (l : str) : Prop := match l with c :: _ => is_blank_tab c = false | [] => False end.

(* the words of a closed header are the words of its lines *)
Lemma close_header_words n first conts : starts_nonblank first -> Forall starts_blank conts ->
  Forall ends_ws (removelast (first :: conts)) ->
  words (snd (close_header n (rev (first :: conts)))) = flat_map hl_words (first :: conts).
Proof.
  intros Hf Hc Ht. unfold close_header. rewrite rev_involutive. cbn [flat_map].
  destruct first as [|c0 f']; [contradiction|]. cbn in Hf.
  assert (E1 : hl_words (c0 :: f') = words (after_colon (c0 :: f'))) by (unfold hl_words; now rewrite Hf).
  rewrite E1. unfold after_colon.
  destruct (partition_char 58 (c0 :: f')) as [[nm found] v] eqn:Ep. cbn [snd].
  rewrite words_rstrip_sub by exact lf_cr_space. rewrite words_lstrip_sub_app by exact blank_tab_space.
  assert (Econts : flat_map hl_words conts = flat_map words conts).
  { clear -Hc. induction Hc as [|l ls Hl _ IH]; [reflexivity|]. cbn [flat_map]. rewrite IH. f_equal.
    destruct l as [|c l']; [contradiction|]. cbn in Hl. unfold hl_words. now rewrite Hl. }
  rewrite Econts. destruct conts as [|c1 conts'].
  - cbn [concat flat_map]. now rewrite !app_nil_r.
  - (* the first line is terminated, so its part after the colon ends with white space *)
    cbn [removelast] in Ht. inversion Ht as [|? ? H0 Hrest]; subst.
    pose proof (partition_char_spec 58 (c0 :: f')) as Hspec. rewrite Ep in Hspec.
    assert (Hv : v = [] \/ ends_ws v).
    { destruct found.
      - destruct Hspec as [E _]. destruct v as [|x v']; [now left|right]. rewrite E in H0.
        change (nm ++ 58 :: x :: v') with (nm ++ [58] ++ (x :: v')) in H0. rewrite app_assoc in H0. apply (ends_ws_suffix _ _ H0). discriminate.
      - left. now destruct Hspec as (_ & E & _). }
    destruct Hv as [->|Hv].
    + cbn [app]. now apply words_concat.
    + rewrite words_ends_ws_app by exact Hv. f_equal. now apply words_concat.
Qed.

(* ---------- the header state machine ---------- *)

Definition open_lines (st : hstate) : list str := match h_last st with Some (_, rl) => rev rl | None => [] end.
Definition SW (st : hstate) : list str :=
  flat_map (fun kv : str * str => words (snd kv)) (rev (h_items st)) ++ flat_map hl_words (open_lines st).
Definition open_shape (st : hstate) : Prop :=
  match h_last st with
  | Some (n, rl) => exists first conts, rev rl = first :: conts /\ starts_nonblank first /\ Forall starts_blank conts
  | None => True
  end.
Definition no_from (l : str) : Prop := startswith (lit "From ") l = false.

Lemma removelast_Forall {A} (P : A -> Prop) l : Forall P l -> Forall P (removelast l).
Proof. induction 1 as [|x l Hx Hl IH]; [constructor|]. cbn [removelast]. destruct l; [constructor|constructor; assumption]. Qed.

Lemma flush_SW st : open_shape st -> Forall ends_ws (removelast (open_lines st)) ->
  SW (flush_last st) = SW st /\ h_last (flush_last st) = None /\ h_defect (flush_last st) = h_defect st /\
  h_unixfrom (flush_last st) = h_unixfrom st /\ h_pushback (flush_last st) = h_pushback st.
Proof.
  unfold open_shape, open_lines, flush_last, SW. destruct (h_last st) as [[n rl]|] eqn:E.
  - intros (first & conts & Er & Hf & Hc) Ht. cbn [h_items h_last h_defect h_unixfrom h_pushback]. repeat split.
    cbn [rev flat_map]. rewrite flat_map_app. cbn [flat_map]. rewrite !app_nil_r. f_equal.
    unfold open_lines. rewrite E. rewrite Er in Ht |- *. assert (Erl : rl = rev (first :: conts)) by (rewrite <- Er; now rewrite rev_involutive).
    rewrite Erl. now apply close_header_words.
  - intros _ _. rewrite E. repeat split; assumption.
Qed.

Lemma step_words st k b l : open_shape st -> Forall ends_ws (open_lines st) -> no_from l ->
  h_defect (header_step st k b l) = false ->
  SW (header_step st k b l) = SW st ++ hl_words l /\ open_shape (header_step st k b l) /\
  (exists pre, open_lines (header_step st k b l) = pre ++ match l with [] => [] | _ => [l] end /\ Forall ends_ws pre) /\
  h_defect st = false /\ h_unixfrom (header_step st k b l) = h_unixfrom st /\ h_pushback (header_step st k b l) = h_pushback st.
Proof.
  intros Hs Ht Hnf Hd. unfold header_step in *. destruct l as [|c l'].
  - cbn [hl_words]. rewrite app_nil_r. repeat split; try assumption. exists (open_lines st). now rewrite app_nil_r.
  - destruct (is_blank_tab c) eqn:Eb.
    + destruct (h_last st) as [[n rl]|] eqn:El; [|cbn in Hd; discriminate]. cbn [h_defect] in Hd.
      unfold SW, open_lines, open_shape in *. cbn [h_items h_last h_unixfrom h_pushback]. rewrite El in *. cbn [rev].
      rewrite flat_map_app. cbn [flat_map]. rewrite app_nil_r, app_assoc. split; [reflexivity|]. split.
      * destruct Hs as (first & conts & Er & Hf & Hc). exists first, (conts ++ [c :: l']). rewrite Er. split; [reflexivity|]. split; [exact Hf|].
        apply Forall_app. split; [exact Hc|]. constructor; [exact Eb|constructor].
      * split; [exists (rev rl); split; [reflexivity|exact Ht]|]. repeat split; assumption.
    + destruct (flush_SW st Hs (removelast_Forall _ _ Ht)) as (E1 & E2 & E3 & E4 & E5).
      unfold no_from in Hnf. rewrite Hnf in *.
      destruct (partition_char 58 (c :: l')) as [[nm found] v] eqn:Ep. destruct nm as [|x nm']; [cbn in Hd; discriminate|].
      cbn [h_defect] in Hd. unfold SW at 1, open_lines at 1, open_shape at 1. cbn [h_items h_last h_unixfrom h_pushback rev app flat_map].
      rewrite app_nil_r. split.
      * rewrite <- E1. unfold SW, open_lines. rewrite E2. cbn [flat_map]. now rewrite app_nil_r.
      * split; [exists (c :: l'), []; split; [reflexivity|split; [exact Eb|constructor]]|].
        split; [exists []; split; [reflexivity|constructor]|]. unfold open_lines. cbn [h_last]. rewrite <- E3. repeat split; assumption.
Qed.

Lemma defect_step st k b l : h_defect st = true -> h_defect (header_step st k b l) = true.
Proof.
  intros H. unfold header_step. destruct l as [|c l']; [exact H|]. destruct (is_blank_tab c).
  - destruct (h_last st) as [[n rl]|]; [exact H|reflexivity].
  - assert (Hf : h_defect (flush_last st) = true) by (unfold flush_last; destruct (h_last st) as [[n rl]|]; exact H).
    destruct (startswith _ _).
    + destruct k; [exact Hf|]. destruct b; [exact Hf|reflexivity].
    + destruct (partition_char 58 (c :: l')) as [[nm f] v]. destruct nm; [reflexivity|exact Hf].
Qed.

Lemma defect_loop ls : forall st k, h_defect st = true -> h_defect (parse_headers_loop st k ls) = true.
Proof. induction ls as [|l ls IH]; intros st k H; [exact H|]. cbn [parse_headers_loop]. apply IH. now apply defect_step. Qed.

Theorem loop_words ls : forall st k, open_shape st -> Forall ends_ws (open_lines st) -> Forall no_from ls ->
  Forall ends_ws (removelast ls) -> h_defect (parse_headers_loop st k ls) = false ->
  let st' := parse_headers_loop st k ls in
  SW st' = SW st ++ flat_map hl_words ls /\ open_shape st' /\ Forall ends_ws (removelast (open_lines st')) /\
  h_unixfrom st' = h_unixfrom st /\ h_pushback st' = h_pushback st.
Proof.
  induction ls as [|l ls IH]; intros st k Hs Ht Hnf Hterm Hd; cbv zeta.
  - cbn [parse_headers_loop flat_map]. rewrite app_nil_r. repeat split; try assumption. now apply removelast_Forall.
  - cbn [parse_headers_loop] in *. inversion Hnf as [|? ? Hl Hnf']; subst.
    set (b := match ls with [] => true | _ :: _ => false end) in *.
    assert (Hd1 : h_defect (header_step st k b l) = false).
    { destruct (h_defect (header_step st k b l)) eqn:E; [|reflexivity]. rewrite (defect_loop ls _ _ E) in Hd. discriminate. }
    destruct (step_words st k b l Hs Ht Hl Hd1) as (E1 & Hs1 & (pre & Eo & Hpre) & _ & Eu & Ep).
    destruct ls as [|l2 ls'].
    + cbn [parse_headers_loop flat_map]. rewrite app_nil_r. repeat split; try assumption.
      rewrite Eo. destruct l; [rewrite app_nil_r; now apply removelast_Forall|]. rewrite removelast_last. exact Hpre.
    + assert (Hl_ws : ends_ws l) by (cbn [removelast] in Hterm; now inversion Hterm).
      assert (Ht1 : Forall ends_ws (open_lines (header_step st k b l))).
      { rewrite Eo. apply Forall_app. split; [exact Hpre|]. destruct l; [constructor|constructor; [exact Hl_ws|constructor]]. }
      assert (Hterm' : Forall ends_ws (removelast (l2 :: ls'))) by (cbn [removelast] in Hterm; now inversion Hterm).
      destruct (IH _ (S k) Hs1 Ht1 Hnf' Hterm' Hd) as (E2 & Hs2 & Ht2 & Eu2 & Ep2). cbv zeta in *.
      rewrite E2, E1. cbn [flat_map]. rewrite <- app_assoc. repeat split; try assumption; congruence.
Qed.

(* the words of the parsed items are exactly the words of the header lines *)
Theorem parse_headers_words hs : Forall no_from hs -> Forall ends_ws (removelast hs) ->
  h_defect (parse_headers hs) = false ->
  flat_map (fun kv : str * str => words (snd kv)) (rev (h_items (parse_headers hs))) = flat_map hl_words hs /\
  h_unixfrom (parse_headers hs) = false /\ h_pushback (parse_headers hs) = None.
Proof.
  intros Hnf Ht Hd. unfold parse_headers in *. set (st0 := mkH [] None false false None) in *.
  assert (Hd' : h_defect (parse_headers_loop st0 0 hs) = false).
  { destruct (h_defect (parse_headers_loop st0 0 hs)) eqn:E; [|reflexivity]. exfalso. revert Hd. unfold flush_last.
    destruct (h_last _) as [[n rl]|]; cbn [h_defect]; rewrite E; discriminate. }
  destruct (loop_words hs st0 0 I (Forall_nil _) Hnf Ht Hd') as (E & Hs & Ht' & Eu & Ep). cbv zeta in *.
  destruct (flush_SW _ Hs Ht') as (F1 & F2 & _ & F4 & F5). split.
  - rewrite E in F1. unfold SW at 1 in F1. unfold open_lines in F1. rewrite F2 in F1. cbn [flat_map] in F1. rewrite app_nil_r in F1.
    rewrite F1. reflexivity.
  - rewrite F4, F5, Eu, Ep. split; reflexivity.
Qed.

(* ---------- lines of a text keep their terminators ---------- *)

Lemma ends_ws_snoc (a : str) c : is_space c = true -> ends_ws (a ++ [c]).
Proof. intros H. now exists a, c. Qed.

Lemma crack_terminated_n n : forall s cur, (length s <= n)%nat ->
  Forall ends_ws (removelast (splitlines_keep_aux is_lf_cr cur s)).
Proof.
  induction n as [|n IH]; intros s cur Hl.
  - destruct s; [|cbn in Hl; lia]. cbn [splitlines_keep_aux]. destruct cur; constructor.
  - destruct s as [|c s]; cbn [splitlines_keep_aux]; [destruct cur; constructor|]. cbn in Hl.
    destruct (is_lf_cr c) eqn:Ec; [|apply IH; lia].
    assert (Hgen : forall line rest, ends_ws line -> Forall ends_ws (removelast rest) -> Forall ends_ws (removelast (line :: rest))).
    { intros line rest H1 H2. cbn [removelast]. destruct rest; [constructor|constructor; assumption]. }
    assert (G1 : Forall ends_ws (removelast (rev (c :: cur) :: splitlines_keep_aux is_lf_cr [] s))).
    { apply Hgen; [cbn [rev]; apply ends_ws_snoc, lf_cr_space, Ec|apply IH; lia]. }
    destruct (N.eqb_spec c 13) as [->|Hc].
    + destruct s as [|d s']; [exact G1|]. destruct (N.eqb_spec d 10) as [->|Hd].
      * apply Hgen; [cbn [rev]; apply (ends_ws_snoc ((rev cur ++ [13])) 10); reflexivity|apply IH; cbn in Hl; lia].
      * destruct d as [|p]; [exact G1|]. repeat (destruct p as [p|p|]; try exact G1). contradiction.
    + destruct c as [|p]; [exact G1|]. repeat (destruct p as [p|p|]; try exact G1). contradiction.
Qed.

Lemma crack_terminated t : Forall ends_ws (removelast (crack t)).
Proof. apply (crack_terminated_n (length t)). lia. Qed.

Lemma split_headers_prefix ls : exists r, ls = fst (fst (split_headers ls)) ++ r.
Proof.
  induction ls as [|l rest IH]; [now exists []|]. cbn [split_headers]. destruct (header_re l).
  - destruct (split_headers rest) as [[h b] d]. cbn [fst] in *. destruct IH as (r & E). exists r. cbn [app]. now rewrite <- E.
  - destruct (starts_nl l); cbn [fst]; now eexists.
Qed.

Lemma removelast_prefix {A} (P : A -> Prop) (h r : list A) : Forall P (removelast (h ++ r)) -> Forall P (removelast h).
Proof.
  destruct r as [|x r]; [now rewrite app_nil_r|]. rewrite removelast_app by discriminate. intros H.
  apply Forall_app in H as [H _]. now apply removelast_Forall.
Qed.

(* ---------- the whole paragraph ---------- *)

Definition header_lines (t : str) : list str := fst (fst (split_headers (crack t))).

Theorem paragraph_words t :
  let m := parse_message t in
  let d := get_paragraph_data t in
  t <> [] -> m_items m <> [] -> m_defects m = false -> m_unixfrom m = false -> m_container m = false ->
  Forall no_from (header_lines t) ->
  (* the words after the colon of every declaration line and the words of every continuation line are
     the words of the parsed values *)
  flat_map (fun kv : str * str => words (snd kv)) (m_items m) = flat_map hl_words (header_lines t) /\
  (* which all reach the mapping under the lower-cased name *)
  (forall n v, In (n, v) (m_items m) ->
     incl (words v) (words (lookup (mkey n) d)) /\ dict_get (mkey n) d <> None) /\
  (* and the body goes under "unknown" *)
  incl (words (m_payload m)) (words (lookup unknown_key d)).
Proof.
  cbv zeta. intros Hne Hit Hdef Hux Hcont Hnf. unfold get_paragraph_data. destruct t as [|c0 t0]; [contradiction|]. set (t := c0 :: t0) in *.
  destruct (m_items (parse_message t)) as [|i0 is0] eqn:Ei; [contradiction|]. rewrite <- Ei in *. rewrite Hdef, Hux, Hcont. cbn [orb].
  unfold parse_message, header_lines in *. destruct (split_headers_prefix (crack t)) as (r & Epre).
  destruct (split_headers (crack t)) as [[hs body] dflag] eqn:Es. cbn [fst] in *.
  cbn [m_items m_defects m_unixfrom m_container m_payload] in *.
  apply orb_false_iff in Hdef as [_ Hd].
  assert (Hterm : Forall ends_ws (removelast hs)).
  { pose proof (crack_terminated t) as Hc. rewrite Epre in Hc. now apply removelast_prefix in Hc. }
  destruct (parse_headers_words hs Hnf Hterm Hd) as (Ew & _ & Epb). rewrite Epb in *. split; [exact Ew|].
  set (items := rev (h_items (parse_headers hs))) in *.
  destruct (concat body) as [|b0 bs] eqn:Eb.
  - destruct (merge_items_words items []) as [_ Hall]. split; [|intros w []].
    intros n v Hin. split; [now apply Hall|now apply (merge_items_keys items [] n v)].
  - set (allitems := items ++ [(unknown_key, b0 :: bs)]). destruct (merge_items_words allitems []) as [_ Hall]. split.
    + intros n v Hin. assert (Hin' : In (n, v) allitems) by (apply in_or_app; now left).
      split; [now apply Hall|now apply (merge_items_keys allitems [] n v)].
    + assert (Hk : mkey unknown_key = unknown_key) by reflexivity. rewrite <- Hk. apply Hall. apply in_or_app. right. now left.
Qed.

(* ---------- cutting the text into paragraphs loses no word ---------- *)

Lemma words_snoc_app (a : str) c (s : str) : words ((a ++ [c]) ++ s) = words (a ++ c :: s).
Proof. now rewrite <- app_assoc. Qed.

Theorem split_paras_words s : forall cur pn in_sep pend,
  (pn = true -> exists cur0, cur = 10 :: cur0) ->
  (in_sep = true -> forallb is_blank_tab pend = true) ->
  flat_map words (split_paras_aux cur pn in_sep pend s) = words (rev (if in_sep then pend else cur) ++ s).
Proof.
  induction s as [|c s IH]; intros cur pn in_sep pend Hpn Hpend.
  - cbn [split_paras_aux]. rewrite app_nil_r. destruct in_sep.
    + destruct pend; [reflexivity|]. cbn [flat_map]. now rewrite app_nil_r.
    + destruct cur; [reflexivity|]. cbn [flat_map]. now rewrite app_nil_r.
  - cbn [split_paras_aux]. destruct in_sep.
    + assert (Hws : forallb is_space (rev pend) = true).
      { rewrite forallb_rev. apply forallb_forall. intros x Hx. specialize (Hpend eq_refl). rewrite forallb_forall in Hpend. now apply blank_tab_space, Hpend. }
      destruct (N.eqb_spec c 10) as [->|Hc].
      * rewrite IH by (discriminate || reflexivity). cbn [rev app].
        change (rev pend ++ 10 :: s) with (rev pend ++ [10] ++ s). rewrite app_assoc. rewrite words_lead_space; [reflexivity|].
        rewrite forallb_app. apply andb_true_intro. split; [exact Hws|reflexivity].
      * destruct (is_blank_tab c) eqn:Eb.
        -- rewrite IH; [|discriminate|intros _; cbn [forallb]; rewrite Eb; now apply Hpend]. cbn [rev]. now rewrite <- app_assoc.
        -- rewrite IH by discriminate. cbn [rev]. now rewrite <- app_assoc.
    + destruct ((c =? 10) && pn) eqn:E.
      * apply andb_true_iff in E as [E1 E2]. apply N.eqb_eq in E1. subst c. destruct (Hpn E2) as (cur0 & ->). cbn [tl rev].
        assert (Htarget : words ((rev cur0 ++ [10]) ++ 10 :: s) = words (rev cur0) ++ words s).
        { rewrite <- app_assoc. change ([10] ++ 10 :: s) with ([10; 10] ++ s). now apply words_app_sep. }
        etransitivity; [|symmetry; exact Htarget]. destruct cur0 as [|x cur0'].
        -- rewrite IH by (discriminate || reflexivity). reflexivity.
        -- cbn [flat_map]. rewrite IH by (discriminate || reflexivity). reflexivity.
      * rewrite IH; [|intros H; apply N.eqb_eq in H; subst; now eexists|discriminate]. cbn [rev]. now rewrite <- app_assoc.
Qed.

Corollary split_in_paragraphs_words t : flat_map words (split_in_paragraphs t) = words t.
Proof. unfold split_in_paragraphs. rewrite split_paras_words by discriminate. reflexivity. Qed.
