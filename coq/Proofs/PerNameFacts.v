(* Proofs for C17, per-name variant: find_latest_versions returns, for every name present, one
   of the inputs of that name whose version no other input of that name exceeds. *)
From Coq Require Import String.
From Coq Require Import Arith NArith List Bool Lia Sorted Permutation.
From DI Require Import Result PyStr PyStrFacts Version Package OrderFacts VersionOrder SortFacts PackageFacts Deb822Facts Dep5Facts.
Import ListNotations.
Open Scope N_scope.

(* ---------- lexicographic comparison of names (str "<") ---------- *)

Fixpoint lcmp (a b : str) : comparison :=
  match a, b with
  | [], [] => Eq
  | [], _ :: _ => Lt
  | _ :: _, [] => Gt
  | x :: a', y :: b' => match x ?= y with Eq => lcmp a' b' | c => c end
  end.

Lemma lcmp_eq a : forall b, lcmp a b = Eq <-> a = b.
Proof.
  induction a as [|x a IH]; intros [|y b]; cbn [lcmp]; try (split; [discriminate|discriminate]); [split; reflexivity|].
  destruct (N.compare_spec x y) as [->|H|H].
  - rewrite IH. split; [now intros ->|now inversion 1].
  - split; [discriminate|]. inversion 1; subst. lia.
  - split; [discriminate|]. inversion 1; subst. lia.
Qed.

Lemma lcmp_ok : CmpOK lcmp.
Proof.
  constructor.
  - induction a as [|x a IH]; intros [|y b]; cbn [lcmp CompOpp]; try reflexivity.
    rewrite (N.compare_antisym y x). destruct (y ?= x); cbn [CompOpp]; [apply IH|reflexivity|reflexivity].
  - intros a b c E. apply lcmp_eq in E. now subst.
  - induction a as [|x a IH]; intros [|y b] [|z c]; cbn [lcmp]; try discriminate; try reflexivity.
    destruct (N.compare_spec x y) as [->|Hxy|Hxy]; try discriminate.
    + destruct (y ?= z); [apply IH|reflexivity|discriminate].
    + intros _. destruct (N.compare_spec y z) as [->|Hyz|Hyz]; try discriminate.
      * intros _. now apply N.compare_lt_iff in Hxy as ->.
      * intros _. assert (H : (x ?= z) = Lt) by (apply N.compare_lt_iff; lia). now rewrite H.
Qed.

Lemma str_lt_lcmp a : forall b, str_lt a b = true <-> lcmp a b = Lt.
Proof.
  induction a as [|x a IH]; intros [|y b]; cbn [str_lt lcmp]; try (split; [discriminate|discriminate]); [split; reflexivity|].
  destruct (N.compare_spec x y) as [->|H|H].
  - rewrite N.ltb_irrefl. apply IH.
  - apply N.ltb_lt in H. rewrite H. split; reflexivity.
  - assert (E1 : (x <? y) = false) by (apply N.ltb_ge; lia). assert (E2 : (y <? x) = true) by (apply N.ltb_lt; lia).
    rewrite E1, E2. split; discriminate.
Qed.

(* ---------- the order list.sort uses on archives of several names ---------- *)

Definition key2 (a : archive) : str * version := (a_name a, a_version a).
Definition cmp2 : str * version -> str * version -> comparison := cmp_pair lcmp vcmp.

Lemma cmp2_ok : CmpOK cmp2.
Proof. apply cmp_pair_ok; [exact lcmp_ok|exact vcmp_ok]. Qed.

Lemma archive_lt_compat2 x y b : wfa x -> wfa y -> archive_lt x y = Ok b ->
  (cmp2 (key2 x) (key2 y) = Lt -> b = true) /\ (cmp2 (key2 x) (key2 y) = Gt -> b = false).
Proof.
  intros Wx Wy H. unfold cmp2, cmp_pair, key2. cbn [fst snd].
  destruct (str_eqb (a_name x) (a_name y)) eqn:En.
  - apply str_eqb_eq in En. assert (El : lcmp (a_name x) (a_name y) = Eq) by now apply lcmp_eq. rewrite El.
    now apply (archive_lt_compat (a_name x)).
  - unfold archive_lt in H. rewrite En in H. cbn [negb] in H. apply Ok_inj in H. subst b.
    destruct (lcmp (a_name x) (a_name y)) eqn:El.
    + apply lcmp_eq in El. apply str_eqb_neq in En. contradiction.
    + split; [intros _; now apply str_lt_lcmp|discriminate].
    + split; [discriminate|]. intros _. destruct (str_lt (a_name x) (a_name y)) eqn:Es; [|reflexivity].
      apply str_lt_lcmp in Es. congruence.
Qed.

(* ---------- grouping consecutive equal names ---------- *)

Lemma group_concat l : concat (map snd (group_by_name l)) = l.
Proof.
  induction l as [|x l IH]; [reflexivity|]. cbn [group_by_name]. destruct (group_by_name l) as [|[n g] gs] eqn:E.
  - cbn [map concat snd] in *. now rewrite <- IH.
  - destruct (str_eqb n (a_name x)); cbn [map concat snd app] in *; now rewrite <- IH.
Qed.

Lemma group_shape l : Forall (fun ng => snd ng <> [] /\ Forall (fun a => a_name a = fst ng) (snd ng)) (group_by_name l).
Proof.
  induction l as [|x l IH]; [constructor|]. cbn [group_by_name]. destruct (group_by_name l) as [|[n g] gs] eqn:E.
  - repeat constructor. discriminate.
  - inversion IH as [|? ? [Hg Hn] Hrest]; subst. cbn [fst snd] in *. destruct (str_eqb n (a_name x)) eqn:En.
    + apply str_eqb_eq in En. constructor; [|exact Hrest]. cbn [fst snd]. split; [discriminate|]. constructor; [now symmetry|exact Hn].
    + constructor; [cbn [fst snd]; split; [discriminate|repeat constructor]|]. constructor; [split; assumption|exact Hrest].
Qed.

(* the head group starts with the head element *)
Lemma group_head x l : exists g gs, group_by_name (x :: l) = (a_name x, x :: g) :: gs.
Proof.
  cbn [group_by_name]. destruct (group_by_name l) as [|[n g] gs]; [now exists [], []|].
  destruct (str_eqb n (a_name x)) eqn:E; [apply str_eqb_eq in E; subst; now exists g, gs|now exists [], ((n, g) :: gs)].
Qed.

Definition le2 (x y : archive) : Prop := cmp2 (key2 x) (key2 y) <> Gt.

Lemma le2_names x y : le2 x y -> lcmp (a_name x) (a_name y) <> Gt.
Proof. unfold le2, cmp2, cmp_pair, key2. cbn [fst snd]. destruct (lcmp (a_name x) (a_name y)); [discriminate|discriminate|intros H _; now apply H]. Qed.

(* in a list sorted by (name, version) every name forms one block *)
Lemma sorted_group_names l : StronglySorted le2 l -> NoDup (map fst (group_by_name l)) /\
  (forall n, In n (map fst (group_by_name l)) -> exists a, In a l /\ a_name a = n).
Proof.
  induction 1 as [|x l Hs [IHnd IHin] Hx]; [split; [constructor|intros n []]|].
  cbn [group_by_name]. destruct (group_by_name l) as [|[n g] gs] eqn:E.
  - split; [repeat constructor; intros []|]. intros m [<-|[]]. exists x. split; [now left|reflexivity].
  - destruct (str_eqb n (a_name x)) eqn:En.
    + apply str_eqb_eq in En. subst n. cbn [map fst] in *. split; [exact IHnd|].
      intros m Hm. destruct (IHin m Hm) as (a & Ha & Ea). exists a. split; [now right|exact Ea].
    + cbn [map fst] in *. split.
      * constructor; [|exact IHnd]. intros Hin.
        (* a later element has the name of x, but the head of l has another name in between *)
        destruct (IHin (a_name x) Hin) as (z & Hz & Ez).
        pose proof (group_shape l) as Hshape. rewrite E in Hshape. inversion Hshape as [|? ? [Hg Hgn] _]; subst. cbn [fst snd] in *.
        destruct g as [|y g']; [contradiction|]. inversion Hgn as [|? ? Hy _]; subst.
        assert (Hyl : In y l). { rewrite <- (group_concat l), E. cbn [map concat snd]. apply in_or_app. left. now left. }
        rewrite Forall_forall in Hx. pose proof (le2_names _ _ (Hx y Hyl)) as H1.
        (* y <= z as well: y is the head of l *)
        assert (Hyz : lcmp (a_name y) (a_name z) <> Gt).
        { destruct l as [|y0 l0]; [contradiction|]. destruct (group_head y0 l0) as (g0 & gs0 & Eg). rewrite Eg in E. inversion E; subst.
          inversion Hs as [|? ? Hs0 Hy0]; subst. destruct Hz as [<-|Hz]; [rewrite (cmp_refl lcmp_ok); discriminate|].
          rewrite Forall_forall in Hy0. apply le2_names. now apply Hy0. }
        rewrite Ez in Hyz. apply str_eqb_neq in En.
        destruct (lcmp (a_name x) (a_name y)) eqn:E1; [apply lcmp_eq in E1; congruence| |contradiction].
        destruct (lcmp (a_name y) (a_name x)) eqn:E2; [apply lcmp_eq in E2; congruence| |contradiction].
        rewrite (cmp_antisym lcmp lcmp_ok), E2 in E1. discriminate.
      * intros m [<-|Hm]; [exists x; split; [now left|reflexivity]|]. destruct (IHin m Hm) as (a & Ha & Ea). exists a. split; [now right|exact Ea].
Qed.

(* ---------- the fold over the groups ---------- *)

Lemma dict_set_fresh {V} k (v : V) d : ~ In k (map fst d) -> dict_set k v d = d ++ [(k, v)].
Proof.
  induction d as [|[a b] d IH]; intros H; [reflexivity|]. cbn [dict_set].
  destruct (str_eqb k a) eqn:E; [apply str_eqb_eq in E; subst; exfalso; apply H; now left|].
  cbn [app]. f_equal. apply IH. intros Hi. apply H. now right.
Qed.

Definition group_step (acc : result (list (str * archive))) (g : str * list archive) : result (list (str * archive)) :=
  do d <- acc;
  do latest <- find_latest_version_archives (snd g);
  match latest with Some a => Ok (dict_set (fst g) a d) | None => Ok d end.

Definition is_max_of (g : list archive) (a : archive) : Prop :=
  In a g /\ forall q, In q g -> vcmp (a_version q) (a_version a) <> Gt.

Lemma fold_groups gs : forall acc out,
  Forall (fun ng => snd ng <> [] /\ Forall (same (fst ng)) (snd ng)) gs ->
  NoDup (map fst acc ++ map fst gs) ->
  fold_left group_step gs (Ok acc) = Ok out ->
  exists picks, out = acc ++ picks /\ Forall2 (fun ng p => fst p = fst ng /\ is_max_of (snd ng) (snd p)) gs picks.
Proof.
  induction gs as [|[n g] gs IH]; intros acc out Hg Hnd H.
  - cbn in H. apply Ok_inj in H. subst. exists []. split; [now rewrite app_nil_r|constructor].
  - cbn [fold_left] in H. inversion Hg as [|? ? [Hne Hsame] Hrest]; subst. cbn [fst snd] in *.
    unfold group_step at 2 in H. cbn [bind fst snd] in H.
    destruct (find_latest_version_archives g) as [res|e] eqn:Ef.
    + destruct (latest_is_maximum n g res Hne Hsame Ef) as (p & -> & Hin & Hmax). cbn [bind] in H.
      assert (Hfresh : ~ In n (map fst acc)).
      { cbn [map fst] in Hnd. intros Hi. apply NoDup_remove_2 in Hnd. apply Hnd. apply in_or_app. now left. }
      rewrite dict_set_fresh in H by exact Hfresh.
      destruct (IH (acc ++ [(n, p)]) out Hrest) as (picks & -> & F2); [|exact H|].
      * rewrite map_app. cbn [map fst]. rewrite <- app_assoc. exact Hnd.
      * exists ((n, p) :: picks). split; [now rewrite <- app_assoc|]. constructor; [|exact F2]. cbn [fst snd]. split; [reflexivity|split; assumption].
    + cbn [bind] in H. exfalso. clear -H. induction gs as [|g0 gs IH]; [discriminate|]. cbn [fold_left] in H. apply IH. exact H.
Qed.

(* ---------- the theorem ---------- *)

Theorem latest_per_name files ps out : files <> [] ->
  mapM deb_from_filename files = Ok ps -> Forall wfa ps ->
  find_latest_versions files = Ok (Some out) ->
  NoDup (map fst out) /\
  (forall n a, In (n, a) out -> In a ps /\ a_name a = n /\
     forall q, In q ps -> a_name q = n -> vcmp (a_version q) (a_version a) <> Gt) /\
  (forall p, In p ps -> exists a, In (a_name p, a) out).
Proof.
  intros Hne Hps Hw H. unfold find_latest_versions in H. destruct files as [|f0 fs]; [contradiction|]. rewrite Hps in H. cbn [bind] in H.
  destruct (py_sort archive_lt ps) as [sorted|e] eqn:Es; cbn [bind] in H; [|discriminate].
  destruct (py_sort_spec archive_lt key2 cmp2 cmp2_ok wfa archive_lt_compat2 ps sorted Hw Es) as [Hsorted Hperm].
  fold group_step in H.
  destruct (fold_left group_step (group_by_name sorted) (Ok [])) as [o|e] eqn:Ef; cbn [bind] in H; [|discriminate].
  apply Ok_inj in H. inversion H; subst o. clear H.
  destruct (sorted_group_names sorted Hsorted) as [Hnd Hnames].
  pose proof (group_shape sorted) as Hshape. pose proof (group_concat sorted) as Hcat.
  assert (Hwsorted : Forall wfa sorted).
  { rewrite Forall_forall in *. intros a Ha. apply Hw. now apply (Permutation_in _ (Permutation_sym Hperm)). }
  assert (Hgs : Forall (fun ng => snd ng <> [] /\ Forall (same (fst ng)) (snd ng)) (group_by_name sorted)).
  { rewrite Forall_forall in *. intros [n g] Hin. destruct (Hshape _ Hin) as [H1 H2]. cbn [fst snd] in *. split; [exact H1|].
    rewrite Forall_forall in *. intros a Ha. split; [|now apply H2]. apply Hwsorted. rewrite <- Hcat. apply in_concat. exists g. split; [|exact Ha].
    apply in_map_iff. exists (n, g). split; [reflexivity|exact Hin]. }
  destruct (fold_groups (group_by_name sorted) [] out Hgs Hnd Ef) as (picks & -> & F2). cbn [app].
  assert (Hfst : map fst picks = map fst (group_by_name sorted)).
  { clear -F2. induction F2 as [|ng p gs ps [E _] _ IH]; [reflexivity|]. cbn [map]. now rewrite E, IH. }
  split; [now rewrite Hfst|]. split.
  - intros n a Hin.
    assert (Hex : exists g, In (n, g) (group_by_name sorted) /\ is_max_of g a).
    { clear -F2 Hin. induction F2 as [|[n0 g0] [n1 a1] gs ps [E Hm] _ IH]; [contradiction|]. cbn [fst snd] in *. subst n1.
      destruct Hin as [Heq|Hin]; [inversion Heq; subst; exists g0; split; [now left|exact Hm]|].
      destruct (IH Hin) as (g & Hg & Hmg). exists g. split; [now right|exact Hmg]. }
    destruct Hex as (g & Hg & [Hag Hmax]). rewrite Forall_forall in Hshape. destruct (Hshape _ Hg) as [_ Hgn]. cbn [fst snd] in Hgn.
    rewrite Forall_forall in Hgn.
    assert (Hg_in : forall x, In x g -> In x sorted).
    { intros x Hx. rewrite <- Hcat. apply in_concat. exists g. split; [|exact Hx]. apply in_map_iff. exists (n, g). split; [reflexivity|exact Hg]. }
    split; [apply (Permutation_in _ (Permutation_sym Hperm)); now apply Hg_in|]. split; [now apply Hgn|].
    intros q Hq Hqn. apply Hmax. apply (Permutation_in _ Hperm) in Hq. rewrite <- Hcat in Hq. apply in_concat in Hq as (g' & Hg' & Hqg').
    apply in_map_iff in Hg' as ([n' g''] & E & Hin'). cbn [snd] in E. subst g''.
    destruct (Hshape _ Hin') as [_ Hgn']. cbn [fst snd] in Hgn'. rewrite Forall_forall in Hgn'. pose proof (Hgn' q Hqg') as En'. rewrite Hqn in En'. subst n'.
    (* both groups carry the name n: they are the same group *)
    assert (Eg : g' = g).
    { clear -Hnd Hg Hin'. induction (group_by_name sorted) as [|[m h] gs IH]; [contradiction|]. cbn [map fst] in Hnd. inversion Hnd as [|? ? Hni Hnd']; subst.
      destruct Hg as [Eg|Hg]; destruct Hin' as [Eg'|Hin'].
      - congruence.
      - inversion Eg; subst. exfalso. apply Hni. apply in_map_iff. exists (n, g'). split; [reflexivity|exact Hin'].
      - inversion Eg'; subst. exfalso. apply Hni. apply in_map_iff. exists (n, g). split; [reflexivity|exact Hg].
      - now apply IH. }
    now subst g'.
  - intros p Hp. apply (Permutation_in _ Hperm) in Hp. rewrite <- Hcat in Hp. apply in_concat in Hp as (g & Hg & Hpg).
    apply in_map_iff in Hg as ([n g'] & E & Hin). cbn [snd] in E. subst g'.
    rewrite Forall_forall in Hshape. destruct (Hshape _ Hin) as [_ Hgn]. cbn [fst snd] in Hgn. rewrite Forall_forall in Hgn. rewrite (Hgn p Hpg).
    clear -F2 Hin. induction F2 as [|[n0 g0] [n1 a1] gs ps [E _] _ IH]; [contradiction|]. cbn [fst] in E. subst n1.
    destruct Hin as [Heq|Hin]; [inversion Heq; subst; exists a1; now left|]. destruct (IH Hin) as (a & Ha). exists a. now right.
Qed.
