(* Proofs for C10: field line ranges. *)
From Coq Require Import String.
From Coq Require Import Arith NArith List Bool Lia Sorted.
From DI Require Import Result PyStr PyStrFacts Codec Deb822 Debcon Copyright Deb822Facts CopyrightFacts.
Import ListNotations.
Open Scope N_scope.

(* ---------- the range of one field ---------- *)

Definition nums (f : field) : list N := map ln_num (f_lines f).

Lemma find_some_In {A} (p : A -> bool) l x : find p l = Some x -> In x l /\ p x = true.
Proof. apply find_some. Qed.

Lemma sorted_head_le (ns : list N) a : StronglySorted N.lt (a :: ns) -> forall x, In x (a :: ns) -> a <= x.
Proof.
  intros H x [<-|Hx]; [lia|]. inversion H as [|? ? _ Hf]; subst. rewrite Forall_forall in Hf. specialize (Hf x Hx). lia.
Qed.

Lemma sorted_last_ge (ns : list N) d : StronglySorted N.lt ns -> forall x, In x ns -> x <= last ns d.
Proof.
  induction ns as [|a ns IH]; intros H x Hx; [destruct Hx|].
  inversion H as [|? ? Hs Hf]; subst. destruct ns as [|b ns'].
  - destruct Hx as [<-|[]]. cbn. lia.
  - change (last (a :: b :: ns') d) with (last (b :: ns') d). destruct Hx as [<-|Hx].
    + rewrite Forall_forall in Hf. specialize (IH Hs b (or_introl eq_refl)). specialize (Hf b (or_introl eq_refl)). lia.
    + now apply IH.
Qed.

Lemma last_line_is_last f : f_lines f <> [] -> last_line f = last (nums f) 1.
Proof.
  unfold last_line, nums. intros Hne. destruct (exists_last Hne) as (l' & x & E). rewrite E.
  rewrite rev_app_distr, map_app. cbn [rev app map]. now rewrite last_last.
Qed.

Lemma find_first_sorted (p : nline -> bool) ls l0 :
  StronglySorted N.lt (map ln_num ls) -> find p ls = Some l0 ->
  forall l, In l ls -> p l = true -> ln_num l0 <= ln_num l.
Proof.
  induction ls as [|x ls IH]; intros Hs Hf l Hl Hp; [destruct Hl|].
  cbn [map] in Hs. inversion Hs as [|? ? Hs' Hfa]; subst. cbn [find] in Hf.
  destruct (p x) eqn:Ex.
  - inversion Hf; subst. destruct Hl as [<-|Hl]; [lia|].
    rewrite Forall_forall in Hfa. specialize (Hfa (ln_num l) (in_map ln_num _ _ Hl)). lia.
  - destruct Hl as [<-|Hl]; [congruence|]. now apply IH.
Qed.

(* for a field whose line numbers increase: start and end are numbers of its own lines,
   start <= end, the start line is the first line with content, the end line is the last line *)
Theorem field_range f :
  StronglySorted N.lt (nums f) -> f_lines f <> [] ->
  In (first_content_line f) (nums f) /\ In (last_line f) (nums f) /\
  first_content_line f <= last_line f /\
  (forall l, In l (f_lines f) -> ln_num l <= last_line f) /\
  (forall l, In l (f_lines f) -> is_blank (ln_val l) = false -> first_content_line f <= ln_num l).
Proof.
  intros Hs Hne.
  assert (Hlast : In (last_line f) (nums f)).
  { rewrite last_line_is_last by exact Hne. unfold nums. destruct (f_lines f) as [|l ls]; [contradiction|].
    destruct (exists_last (l := map ln_num (l :: ls))) as (a & b & E); [discriminate|]. rewrite E, last_last.
    apply in_or_app. right. now left. }
  assert (Hle : forall l, In l (f_lines f) -> ln_num l <= last_line f).
  { intros l Hl. rewrite last_line_is_last by exact Hne. apply sorted_last_ge; [exact Hs|]. now apply in_map. }
  unfold first_content_line.
  destruct (find (fun l => negb (is_blank (ln_val l))) (f_lines f)) as [l0|] eqn:Ef.
  - pose proof Ef as Ef0. apply find_some in Ef as [Hin Hnb]. repeat split; try assumption.
    + now apply in_map.
    + now apply Hle.
    + intros l Hl Hb. apply (find_first_sorted (fun l => negb (is_blank (ln_val l))) (f_lines f) l0 Hs Ef0 l Hl).
      now rewrite Hb.
  - destruct (f_lines f) as [|l ls] eqn:El; [contradiction|]. repeat split; try assumption.
    + unfold nums. rewrite El. now left.
    + apply Hle. now left.
    + intros l' Hl' Hb. exfalso. pose proof (find_none _ _ Ef l' Hl') as Hn. cbn in Hn. rewrite Hb in Hn. discriminate.
Qed.

(* ---------- inserting blank lines at the top shifts every number and nothing else ---------- *)

Definition shift_line (k : N) (l : nline) : nline := mkLine (ln_num l + k) (ln_val l).
Definition shift_field (k : N) (f : field) : field := mkField (f_name f) (map (shift_line k) (f_lines f)).

Lemma from_line_shift k l : from_line (shift_line k l) = option_map (shift_field k) (from_line l).
Proof.
  unfold from_line, shift_line. cbn [ln_val ln_num]. destruct (negb (is_decl (ln_val l))); [reflexivity|].
  destruct (partition_char 58 (ln_val l)) as [[a b] c]. destruct (lower_name (strip a)); reflexivity.
Qed.

Lemma drop_while_lines_shift k rl :
  drop_while_lines (fun l => is_blank (ln_val l)) (map (shift_line k) rl) =
  map (shift_line k) (drop_while_lines (fun l => is_blank (ln_val l)) rl).
Proof.
  induction rl as [|l rl IH]; [reflexivity|]. cbn [map drop_while_lines shift_line ln_val].
  destruct (is_blank (ln_val l)); [exact IH|reflexivity].
Qed.

Lemma finish_field_shift k f : finish_field (shift_field k f) = shift_field k (finish_field f).
Proof. unfold finish_field, shift_field. cbn [f_name f_lines]. now rewrite drop_while_lines_shift, map_rev. Qed.

Lemma flush_shift k cur : flush (map (shift_field k) cur) = map (map (shift_field k)) (flush cur).
Proof.
  unfold flush. destruct cur as [|f fs]; [reflexivity|]. cbn [map]. f_equal.
  change (shift_field k f :: map (shift_field k) fs) with (map (shift_field k) (f :: fs)).
  rewrite <- map_rev, !map_map. apply map_ext. intros x. apply finish_field_shift.
Qed.

Lemma add_continuation_shift k f l :
  add_continuation (shift_field k f) (shift_line k l) = shift_field k (add_continuation f l).
Proof. reflexivity. Qed.

Theorem groups_loop_shift k lines : forall cur,
  groups_loop (map (shift_line k) lines) (map (shift_field k) cur) =
  rmap (map (map (shift_field k))) (groups_loop lines cur).
Proof.
  induction lines as [|l rest IH]; intros cur.
  - cbn [map groups_loop rmap]. now rewrite flush_shift.
  - cbn [map groups_loop]. change (ln_val (shift_line k l)) with (ln_val l).
    assert (Hnil : groups_loop (map (shift_line k) rest) [] = rmap (map (map (shift_field k))) (groups_loop rest []))
      by (apply (IH [])).
    destruct (is_blank (ln_val l)).
    + destruct cur as [|f fs]; cbn [map]; [exact Hnil|].
      assert (Eabs : match map (shift_line k) rest with
                     | nxt :: _ => negb (is_decl (ln_val nxt)) && negb (is_blank (ln_val nxt)) | [] => false end =
                     match rest with
                     | nxt :: _ => negb (is_decl (ln_val nxt)) && negb (is_blank (ln_val nxt)) | [] => false end)
        by (destruct rest; reflexivity).
      rewrite Eabs. destruct (match rest with nxt :: _ => _ | [] => false end).
      * rewrite add_continuation_shift. apply (IH (add_continuation f l :: fs)).
      * rewrite Hnil. change (shift_field k f :: map (shift_field k) fs) with (map (shift_field k) (f :: fs)).
        rewrite flush_shift. destruct (groups_loop rest []); cbn [rmap]; [now rewrite map_app|reflexivity].
    + destruct cur as [|f fs]; cbn [map].
      * destruct (is_decl (ln_val l)).
        -- rewrite from_line_shift. destruct (from_line l) as [nf|]; cbn [option_map]; [apply (IH [nf])|reflexivity].
        -- rewrite Hnil. destruct (groups_loop rest []); reflexivity.
      * destruct (is_cont (ln_val l)).
        -- rewrite add_continuation_shift. apply (IH (add_continuation f l :: fs)).
        -- destruct (is_decl (ln_val l)).
           ++ rewrite from_line_shift. destruct (from_line l) as [nf|]; cbn [option_map]; [apply (IH (nf :: f :: fs))|reflexivity].
           ++ rewrite Hnil. change (shift_field k f :: map (shift_field k) fs) with (map (shift_field k) (f :: fs)).
              rewrite flush_shift. destruct (groups_loop rest []); cbn [rmap]; [|reflexivity].
              now rewrite map_app.
Qed.

Lemma number_from_shift k n ls : number_from (n + k) ls = map (shift_line k) (number_from n ls).
Proof.
  revert n; induction ls as [|l ls IH]; intros n; [reflexivity|]. cbn [number_from map]. f_equal.
  replace (n + k + 1) with (n + 1 + k) by lia. apply IH.
Qed.

Lemma text_lines_blank_prefix k t : text_lines (repeat 10 k ++ t) = repeat [] k ++ text_lines t.
Proof. unfold text_lines, splitlines_by. induction k as [|k IH]; [reflexivity|]. cbn. now rewrite IH. Qed.

Lemma skip_blank_prefix k n ls :
  groups_loop (number_from n (repeat [] k ++ ls)) [] = groups_loop (number_from (n + N.of_nat k) ls) [].
Proof.
  revert n; induction k as [|k IH]; intros n; [now rewrite N.add_0_r|].
  cbn [repeat app number_from groups_loop ln_val is_blank all_space forallb]. rewrite IH. f_equal. f_equal. lia.
Qed.

(* k blank lines at the top: same groups, fields and values, every number shifted by k *)
Theorem groups_shift k t :
  groups (repeat 10 k ++ t) = rmap (map (map (shift_field (N.of_nat k)))) (groups t).
Proof.
  unfold groups, groups_from_lines, lines_from_text. rewrite text_lines_blank_prefix, skip_blank_prefix.
  rewrite number_from_shift. apply (groups_loop_shift (N.of_nat k) _ []).
Qed.

(* ---------- the ranges recorded by from_fields are ranges of its fields ---------- *)

Lemma dict_put_values {V} k (v : V) d x : In x (map snd (dict_put k v d)) -> x = v \/ In x (map snd d).
Proof.
  induction d as [|[k' v'] d IH]; cbn.
  - intros [<-|[]]. now left.
  - destruct (str_eqb k k'); cbn.
    + intros [<-|H]; [now left|right; now right].
    + intros [<-|H]; [right; now left|]. destruct (IH H) as [->|H']; [now left|right; now right].
Qed.

Definition range_of (f : field) : N * N := (first_content_line f, last_line f).

Lemma add_field_ranges t ae b f b' : add_field t ae b f = Ok b' ->
  forall r, In r (map snd (b_lines b')) -> In r (map snd (b_lines b)) \/ (r = range_of f /\ field_text f <> []).
Proof.
  unfold add_field. destruct (field_text f) as [|c0 v0] eqn:Ev; [intros H; inversion H; subst; now left|].
  intros H r Hr.
  destruct (if mem_str _ (b_seen b) then _ else _) as [name sfx].
  destruct (negb ae && known_name t name).
  - destruct (has_key name (b_known b)); [discriminate|]. inversion H; subst. cbn [b_lines] in Hr.
    apply dict_put_values in Hr as [->|Hr]; [right; split; [reflexivity|discriminate]|now left].
  - destruct (has_key name (b_extra b)); [discriminate|]. inversion H; subst. cbn [b_lines] in Hr.
    apply dict_put_values in Hr as [->|Hr]; [right; split; [reflexivity|discriminate]|now left].
Qed.

Lemma add_fields_ranges t ae fs : forall b b', add_fields t ae b fs = Ok b' ->
  forall r, In r (map snd (b_lines b')) ->
  In r (map snd (b_lines b)) \/ exists f, In f fs /\ r = range_of f /\ field_text f <> [].
Proof.
  induction fs as [|f fs IH]; intros b b' H r Hr.
  - cbn in H. inversion H; subst. now left.
  - cbn [add_fields] in H. destruct (add_field t ae b f) as [b1|e] eqn:E1; [|discriminate]. cbn [bind] in H.
    destruct (IH _ _ H r Hr) as [Hin|(f' & Hf' & Er)].
    + destruct (add_field_ranges _ _ _ _ _ E1 r Hin) as [Hb|[-> Hne]]; [now left|].
      right. exists f. split; [now left|split; [reflexivity|exact Hne]].
    + right. exists f'. split; [now right|exact Er].
Qed.

(* every recorded (start, end) is the (first content line, last line) of a field of the group
   whose value is not empty *)
Theorem from_fields_ranges t fs p : from_fields t fs = Ok p ->
  forall r, In r (map snd (p_lines p)) -> exists f, In f fs /\ r = range_of f /\ field_text f <> [].
Proof.
  unfold from_fields. intros H r Hr.
  destruct (add_fields t _ (mkB [] [] [] [] 1) fs) as [b|e] eqn:E; [|discriminate]. cbn [bind] in H.
  inversion H; subst. cbn [p_lines build_para] in Hr.
  destruct (add_fields_ranges _ _ _ _ _ E r Hr) as [[]|Hex]. exact Hex.
Qed.
