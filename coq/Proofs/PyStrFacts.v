(* Facts about the str operations of Model/PyStr.v used by later proofs. *)
From Coq Require Import NArith List Bool Lia.
From DI Require Import PyStr.
Import ListNotations.
Open Scope N_scope.

(* ---------- str_eqb ---------- *)

Lemma str_eqb_refl s : str_eqb s s = true.
Proof. induction s as [|c s IH]; simpl; [reflexivity|]. now rewrite N.eqb_refl, IH. Qed.

Lemma str_eqb_eq a b : str_eqb a b = true <-> a = b.
Proof.
  revert b; induction a as [|x a IH]; intros [|y b]; simpl; split; intros H;
    try reflexivity; try discriminate.
  - apply andb_true_iff in H as [H1 H2]. apply N.eqb_eq in H1. apply IH in H2. now subst.
  - inversion H; subst. now rewrite N.eqb_refl, str_eqb_refl.
Qed.

Lemma str_eqb_neq a b : str_eqb a b = false <-> a <> b.
Proof.
  split; intros H.
  - intros E. apply str_eqb_eq in E. congruence.
  - destruct (str_eqb a b) eqn:E; [|reflexivity]. apply str_eqb_eq in E. contradiction.
Qed.

(* ---------- drop_while / take_while ---------- *)

Lemma take_drop_while p s : take_while p s ++ drop_while p s = s.
Proof. induction s as [|c s IH]; simpl; [reflexivity|]. destruct (p c); simpl; [now rewrite IH|reflexivity]. Qed.

Lemma take_while_all p s : Forall (fun c => p c = true) (take_while p s).
Proof. induction s as [|c s IH]; simpl; [constructor|]. destruct (p c) eqn:E; [constructor; assumption|constructor]. Qed.

Lemma drop_while_all p s : forallb p s = true -> drop_while p s = [].
Proof.
  induction s as [|c s IH]; simpl; [reflexivity|]. intros H.
  apply andb_true_iff in H as [H1 H2]. now rewrite H1, IH.
Qed.

Lemma drop_while_head p s c s' : drop_while p s = c :: s' -> p c = false.
Proof.
  induction s as [|x s IH]; simpl; [discriminate|].
  destruct (p x) eqn:E; [assumption|]. intros H. inversion H; subst. assumption.
Qed.

Lemma drop_while_nohead p c s : p c = false -> drop_while p (c :: s) = c :: s.
Proof. intros H. simpl. now rewrite H. Qed.

Lemma drop_while_idem p s : drop_while p (drop_while p s) = drop_while p s.
Proof.
  induction s as [|c s IH]; simpl; [reflexivity|].
  destruct (p c) eqn:E; [assumption|]. simpl. now rewrite E.
Qed.

Lemma drop_while_app_not_all p a b :
  forallb p a = false -> drop_while p (a ++ b) = drop_while p a ++ b.
Proof.
  induction a as [|c a IH]; simpl; [discriminate|].
  destruct (p c) eqn:E; simpl; [assumption|reflexivity].
Qed.

Lemma drop_while_app_all p a b :
  forallb p a = true -> drop_while p (a ++ b) = drop_while p b.
Proof.
  induction a as [|c a IH]; simpl; [reflexivity|]. intros H.
  apply andb_true_iff in H as [H1 H2]. rewrite H1. now apply IH.
Qed.

Lemma forallb_rev {A} (p : A -> bool) l : forallb p (rev l) = forallb p l.
Proof.
  induction l as [|x l IH]; simpl; [reflexivity|].
  rewrite forallb_app, IH. simpl. rewrite andb_true_r. apply andb_comm.
Qed.

Lemma drop_while_suffix p s : exists a, s = a ++ drop_while p s /\ forallb p a = true.
Proof.
  exists (take_while p s). split; [symmetry; apply take_drop_while|].
  apply forallb_forall. intros x Hx. pose proof (take_while_all p s) as H.
  rewrite Forall_forall in H. now apply H.
Qed.

(* ---------- strip family ---------- *)

Lemma rstrip_by_all p s : forallb p s = true -> rstrip_by p s = [].
Proof. intros H. unfold rstrip_by. rewrite drop_while_all; [reflexivity|]. now rewrite forallb_rev. Qed.

Lemma lstrip_by_all p s : forallb p s = true -> lstrip_by p s = [].
Proof. apply drop_while_all. Qed.

Lemma strip_by_all p s : forallb p s = true -> strip_by p s = [].
Proof. intros H. unfold strip_by. now rewrite lstrip_by_all. Qed.

Lemma rstrip_by_prefix p s : exists r, s = rstrip_by p s ++ r /\ forallb p r = true.
Proof.
  unfold rstrip_by. destruct (drop_while_suffix p (rev s)) as (a & E & Ha).
  exists (rev a). split.
  - rewrite <- (rev_involutive s) at 1. rewrite E at 1. now rewrite rev_app_distr.
  - now rewrite forallb_rev.
Qed.

Lemma rstrip_by_snoc_keep p s c : p c = false -> rstrip_by p (s ++ [c]) = s ++ [c].
Proof.
  intros H. unfold rstrip_by. rewrite rev_app_distr. simpl. rewrite H. simpl.
  now rewrite rev_involutive.
Qed.

Lemma rstrip_by_cons p c s : forallb p s = false -> rstrip_by p (c :: s) = c :: rstrip_by p s.
Proof.
  intros H. unfold rstrip_by. simpl.
  rewrite drop_while_app_not_all by now rewrite forallb_rev.
  now rewrite rev_app_distr.
Qed.

Lemma rstrip_by_cons_keep p c s : p c = false -> rstrip_by p (c :: s) = c :: rstrip_by p s.
Proof.
  intros H. destruct (forallb p s) eqn:E.
  - rewrite (rstrip_by_all p s E). unfold rstrip_by. simpl.
    rewrite drop_while_app_all by now rewrite forallb_rev. simpl. now rewrite H.
  - now apply rstrip_by_cons.
Qed.

Lemma rstrip_by_last p s : rstrip_by p s = [] \/ exists a c, rstrip_by p s = a ++ [c] /\ p c = false.
Proof.
  unfold rstrip_by. destruct (drop_while p (rev s)) as [|c r] eqn:E; [now left|right].
  exists (rev r), c. split; [reflexivity|]. eapply drop_while_head; eassumption.
Qed.

Lemma rstrip_by_idem p s : rstrip_by p (rstrip_by p s) = rstrip_by p s.
Proof. unfold rstrip_by. now rewrite rev_involutive, drop_while_idem. Qed.

Lemma rstrip_by_nil_all p s : rstrip_by p s = [] -> forallb p s = true.
Proof.
  intros H. destruct (rstrip_by_prefix p s) as (r & E & Hr). rewrite H in E. simpl in E. now subst.
Qed.

Lemma forallb_false_rstrip p s : forallb p s = false -> forallb p (rstrip_by p s) = false.
Proof.
  intros H. destruct (rstrip_by_prefix p s) as (r & E & Hr).
  destruct (forallb p (rstrip_by p s)) eqn:E2; [|reflexivity].
  rewrite E, forallb_app, E2, Hr in H. discriminate.
Qed.

Lemma lstrip_by_idem p s : lstrip_by p (lstrip_by p s) = lstrip_by p s.
Proof. apply drop_while_idem. Qed.

Lemma Forall_rstrip_by {P : char -> Prop} p s : Forall P s -> Forall P (rstrip_by p s).
Proof.
  intros H. destruct (rstrip_by_prefix p s) as (r & E & _). rewrite E in H.
  now apply Forall_app in H as [H _].
Qed.

Lemma Forall_lstrip_by {P : char -> Prop} p s : Forall P s -> Forall P (lstrip_by p s).
Proof.
  intros H. destruct (drop_while_suffix p s) as (a & E & _). rewrite E in H.
  now apply Forall_app in H as [_ H].
Qed.

Lemma Forall_strip_by {P : char -> Prop} p s : Forall P s -> Forall P (strip_by p s).
Proof. intros H. unfold strip_by. now apply Forall_rstrip_by, Forall_lstrip_by. Qed.

(* strip of something that starts and ends with non-space characters *)
Lemma strip_by_fixed p s :
  (match s with [] => True | c :: _ => p c = false end) ->
  rstrip_by p s = s -> strip_by p s = s.
Proof.
  intros Hh Hr. unfold strip_by, lstrip_by. destruct s as [|c s]; [reflexivity|].
  rewrite drop_while_nohead by assumption. exact Hr.
Qed.

Lemma rstrip_by_head p c s : p c = false ->
  match rstrip_by p (c :: s) with [] => False | x :: _ => x = c end.
Proof. intros H. now rewrite rstrip_by_cons_keep. Qed.

Lemma strip_by_idem p s : strip_by p (strip_by p s) = strip_by p s.
Proof.
  unfold strip_by at 1. unfold lstrip_by.
  assert (H : drop_while p (strip_by p s) = strip_by p s).
  { unfold strip_by, lstrip_by. destruct (drop_while p s) as [|c r] eqn:E; [reflexivity|].
    pose proof (drop_while_head _ _ _ _ E) as Hc.
    rewrite rstrip_by_cons_keep by assumption. now apply drop_while_nohead. }
  fold (lstrip_by p (strip_by p s)). unfold lstrip_by. rewrite H.
  unfold strip_by. apply rstrip_by_idem.
Qed.

(* ---------- join ---------- *)

Lemma join_cons sep x y l : join sep (x :: y :: l) = x ++ sep ++ join sep (y :: l).
Proof. reflexivity. Qed.

Lemma join_nl_sp x xs :
  join [10; 32] (x :: xs) = join [10] (x :: map (cons 32) xs).
Proof.
  revert x; induction xs as [|y ys IH]; intros x; [reflexivity|].
  rewrite join_cons. simpl map. rewrite join_cons. rewrite IH. simpl.
  destruct ys; reflexivity.
Qed.

(* ---------- splitlines ---------- *)

Definition no_lb (lb : char -> bool) (l : str) : Prop := Forall (fun c => lb c = false) l.

Lemma splitlines_aux_no_lb lb skip cur s :
  no_lb lb cur -> Forall (no_lb lb) (splitlines_aux lb skip cur s).
Proof.
  revert skip cur; induction s as [|c s IH]; intros skip cur Hc; simpl.
  - destruct cur; constructor; [|constructor]. apply Forall_rev. exact Hc.
  - destruct (skip && (c =? 10)); [now apply IH|].
    destruct (lb c) eqn:E.
    + constructor; [apply Forall_rev; exact Hc|]. apply IH. constructor.
    + apply IH. constructor; assumption.
Qed.

Lemma Forall_rev_iff {A} (P : A -> Prop) l : Forall P (rev l) <-> Forall P l.
Proof. split; intros H; [rewrite <- (rev_involutive l)|]; now apply Forall_rev. Qed.

Lemma splitlines_no_lb lb s : Forall (no_lb lb) (splitlines_by lb s).
Proof. apply splitlines_aux_no_lb. constructor. Qed.

(* a run of non-boundary characters is accumulated *)
Lemma splitlines_aux_run lb cur l s :
  no_lb lb l -> lb 10 = true ->
  splitlines_aux lb false cur (l ++ s) = splitlines_aux lb false (rev l ++ cur) s.
Proof.
  revert cur; induction l as [|c l IH]; intros cur Hl H10; [reflexivity|].
  inversion Hl as [|? ? Hc Hl']; subst. simpl.
  rewrite Hc. rewrite IH by assumption. now rewrite <- app_assoc.
Qed.

Lemma splitlines_aux_end lb cur :
  splitlines_aux lb false cur [] = match cur with [] => [] | _ => [rev cur] end.
Proof. reflexivity. Qed.

(* splitlines inverts joining with LF, provided no line holds a boundary and the
   last line is not empty *)
Lemma splitlines_join_aux lb cur ls :
  lb 10 = true -> Forall (no_lb lb) ls -> ls <> [] -> last ls [0] <> [] ->
  splitlines_aux lb false cur (join [10] ls) =
  match ls with [] => [] | l :: ls' => (rev cur ++ l) :: ls' end.
Proof.
  intros H10. revert cur; induction ls as [|l ls IH]; intros cur Hf Hne Hlast; [contradiction|].
  inversion Hf as [|? ? Hl Hf']; subst.
  destruct ls as [|l2 ls].
  - simpl join. simpl in Hlast. rewrite <- (app_nil_r l) at 1.
    rewrite splitlines_aux_run by assumption. rewrite splitlines_aux_end.
    destruct (rev l ++ cur) eqn:E.
    + apply app_eq_nil in E as [E _]. apply (f_equal (@rev char)) in E.
      rewrite rev_involutive in E. simpl in E. contradiction.
    + rewrite <- E, rev_app_distr, rev_involutive. reflexivity.
  - rewrite join_cons. rewrite splitlines_aux_run by assumption.
    simpl app at 2. cbn [splitlines_aux]. simpl andb. rewrite H10.
    rewrite rev_app_distr, rev_involutive. f_equal.
    replace (10 =? 13) with false by reflexivity.
    rewrite IH; [reflexivity|assumption|discriminate|exact Hlast].
Qed.

Lemma splitlines_join lb ls :
  lb 10 = true -> Forall (no_lb lb) ls -> ls <> [] -> last ls [0] <> [] ->
  splitlines_by lb (join [10] ls) = ls.
Proof.
  intros H10 Hf Hne Hl. unfold splitlines_by. rewrite splitlines_join_aux by assumption.
  destruct ls; [contradiction|reflexivity].
Qed.

Lemma is_linebreak_10 : is_linebreak 10 = true. Proof. reflexivity. Qed.
Lemma is_lf_cr_10 : is_lf_cr 10 = true. Proof. reflexivity. Qed.

(* ---------- rstrip over a concatenation ---------- *)

Lemma rstrip_by_app_all p a b : forallb p b = true -> rstrip_by p (a ++ b) = rstrip_by p a.
Proof.
  intros H. unfold rstrip_by. rewrite rev_app_distr.
  rewrite drop_while_app_all by now rewrite forallb_rev. reflexivity.
Qed.

Lemma rstrip_by_app_keep p a b : forallb p b = false -> rstrip_by p (a ++ b) = a ++ rstrip_by p b.
Proof.
  intros H. induction a as [|c a IH]; [reflexivity|]. simpl.
  rewrite rstrip_by_cons; [now rewrite IH|].
  rewrite forallb_app, H. apply andb_false_r.
Qed.

(* ---------- partition / rpartition on one character ---------- *)

Lemma mem_char_In c s : mem_char c s = true <-> In c s.
Proof.
  induction s as [|x s IH]; simpl; [split; [discriminate|contradiction]|].
  rewrite orb_true_iff, IH, N.eqb_eq. tauto.
Qed.

Lemma mem_char_false c s : mem_char c s = false <-> ~ In c s.
Proof. rewrite <- mem_char_In. destruct (mem_char c s); split; congruence. Qed.

Lemma partition_char_spec c s :
  match partition_char c s with
  | (a, true, b) => s = a ++ c :: b /\ ~ In c a
  | (a, false, b) => a = s /\ b = [] /\ ~ In c s
  end.
Proof.
  induction s as [|x s IH]; simpl; [repeat split; auto|].
  destruct (x =? c) eqn:E.
  - apply N.eqb_eq in E. subst. split; [reflexivity|auto].
  - apply N.eqb_neq in E. destruct (partition_char c s) as [[a f] b]. destruct f.
    + destruct IH as [-> Hn]. split; [reflexivity|]. intros [H|H]; [congruence|contradiction].
    + destruct IH as (-> & -> & Hn). repeat split. intros [H|H]; [congruence|contradiction].
Qed.

Lemma rpartition_char_spec c s :
  match rpartition_char c s with
  | (a, true, b) => s = a ++ c :: b /\ ~ In c b
  | (a, false, b) => a = [] /\ b = s /\ ~ In c s
  end.
Proof.
  unfold rpartition_char. pose proof (partition_char_spec c (rev s)) as H.
  destruct (partition_char c (rev s)) as [[a f] b]. destruct f.
  - destruct H as [E Hn]. split.
    + rewrite <- (rev_involutive s), E, rev_app_distr. simpl. now rewrite <- app_assoc.
    + now rewrite <- in_rev.
  - destruct H as (_ & _ & Hn). repeat split. now rewrite in_rev.
Qed.

(* the split of  a ++ c :: b  when c does not occur in a / in b *)
Lemma partition_char_app c a b : ~ In c a -> partition_char c (a ++ c :: b) = (a, true, b).
Proof.
  induction a as [|x a IH]; simpl; intros Hn; [now rewrite N.eqb_refl|].
  destruct (x =? c) eqn:E; [apply N.eqb_eq in E; subst; exfalso; apply Hn; now left|].
  rewrite IH; [reflexivity|]. intros H. apply Hn. now right.
Qed.

Lemma partition_char_absent c s : ~ In c s -> partition_char c s = (s, false, []).
Proof.
  induction s as [|x s IH]; simpl; intros Hn; [reflexivity|].
  destruct (x =? c) eqn:E; [apply N.eqb_eq in E; subst; exfalso; apply Hn; now left|].
  rewrite IH; [reflexivity|]. intros H. apply Hn. now right.
Qed.

Lemma rpartition_char_app c a b : ~ In c b -> rpartition_char c (a ++ c :: b) = (a, true, b).
Proof.
  intros Hn. unfold rpartition_char. rewrite rev_app_distr. simpl. rewrite <- app_assoc. simpl.
  rewrite partition_char_app by now rewrite <- in_rev. now rewrite !rev_involutive.
Qed.

Lemma rpartition_char_absent c s : ~ In c s -> rpartition_char c s = ([], false, s).
Proof.
  intros Hn. unfold rpartition_char. rewrite partition_char_absent by now rewrite <- in_rev. reflexivity.
Qed.

(* ---------- split on one character ---------- *)

Lemma split_char_aux_map (f : char -> char) c :
  (forall x, (f x =? c) = (x =? c)) ->
  forall s cur, split_char_aux c (map f cur) (map f s) = map (map f) (split_char_aux c cur s).
Proof.
  intros Hf. induction s as [|x s IH]; intros cur; cbn [split_char_aux map].
  - now rewrite map_rev.
  - rewrite Hf. destruct (x =? c).
    + cbn [map]. rewrite map_rev. f_equal. apply (IH []).
    + apply (IH (x :: cur)).
Qed.

Lemma split_char_map (f : char -> char) c s :
  (forall x, (f x =? c) = (x =? c)) -> split_char c (map f s) = map (map f) (split_char c s).
Proof. intros Hf. apply (split_char_aux_map f c Hf s []). Qed.

Lemma split_char_aux_nohyphen c w cur : ~ In c w -> forall rest,
  split_char_aux c cur (w ++ rest) = split_char_aux c (rev w ++ cur) rest.
Proof.
  induction w as [|x w IH] in cur |- *; intros Hn rest; [reflexivity|].
  cbn [app split_char_aux]. destruct (x =? c) eqn:E.
  - apply N.eqb_eq in E. subst. exfalso. apply Hn. now left.
  - rewrite IH by (intros H; apply Hn; now right). cbn [rev]. now rewrite <- app_assoc.
Qed.

(* splitting a join gives the words back when no word holds the separator *)
Lemma split_char_join c ws : ws <> [] -> Forall (fun w => ~ In c w) ws ->
  split_char c (join [c] ws) = ws.
Proof.
  intros Hne Hf. unfold split_char.
  assert (G : forall cur, split_char_aux c cur (join [c] ws) =
                          match ws with [] => [rev cur] | w :: ws' => (rev cur ++ w) :: ws' end).
  { induction Hf as [|w ws Hw Hf IH]; [contradiction|]. intros cur.
    destruct ws as [|w2 ws].
    - cbn [join]. rewrite <- (app_nil_r w) at 1. rewrite split_char_aux_nohyphen by exact Hw.
      cbn [split_char_aux]. now rewrite rev_app_distr, rev_involutive.
    - rewrite join_cons. rewrite split_char_aux_nohyphen by exact Hw. cbn [app split_char_aux].
      rewrite N.eqb_refl. rewrite rev_app_distr, rev_involutive. f_equal.
      rewrite IH by discriminate. reflexivity. }
  rewrite G. destruct ws; [contradiction|reflexivity].
Qed.

Lemma split_char_aux_nosep c s : forall cur, ~ In c cur -> Forall (fun w => ~ In c w) (split_char_aux c cur s).
Proof.
  induction s as [|x s IH]; intros cur Hc; cbn [split_char_aux].
  - constructor; [|constructor]. now rewrite <- in_rev.
  - destruct (x =? c) eqn:E.
    + constructor; [now rewrite <- in_rev|]. apply IH. intros [].
    + apply IH. intros [H|H]; [apply N.eqb_neq in E; congruence|contradiction].
Qed.

Lemma split_char_nosep c s : Forall (fun w => ~ In c w) (split_char c s).
Proof. apply split_char_aux_nosep. intros []. Qed.

Lemma split_char_nonempty c s : split_char c s <> [].
Proof.
  unfold split_char. generalize (@nil char). induction s as [|x s IH]; intros cur; cbn [split_char_aux]; [discriminate|].
  destruct (x =? c); [discriminate|apply IH].
Qed.


(* ---------- partition on a separator string ---------- *)

Lemma partition_str_first sep a b :
  sep <> [] ->
  (forall a1 a2, a = a1 ++ a2 -> a2 <> [] -> startswith sep (a2 ++ sep ++ b) = false) ->
  partition_str sep (a ++ sep ++ b) = (a, true, b).
Proof.
  intros Hs. induction a as [|x a IH]; intros Hn.
  - cbn [app]. destruct sep as [|s0 sep]; [contradiction|]. cbn [app partition_str].
    assert (E : startswith (s0 :: sep) (s0 :: sep ++ b) = true).
    { clear. change (s0 :: sep ++ b) with ((s0 :: sep) ++ b). generalize (s0 :: sep). intros l.
      induction l as [|y l IHl]; [reflexivity|]. cbn. now rewrite N.eqb_refl. }
    rewrite E. f_equal. cbn [length skipn]. clear. induction sep as [|y l IHl]; [reflexivity|]. cbn. exact IHl.
  - cbn [app partition_str].
    assert (E0 : startswith sep ((x :: a) ++ sep ++ b) = false) by (apply (Hn [] (x :: a) eq_refl); discriminate).
    cbn [app] in E0. rewrite E0.
    rewrite IH; [reflexivity|]. intros a1 a2 E Hne. apply (Hn (x :: a1) a2); [now rewrite E|exact Hne].
Qed.

Lemma startswith_app p s : startswith p (p ++ s) = true.
Proof. induction p as [|c p IH]; [reflexivity|]. cbn. now rewrite N.eqb_refl. Qed.

Lemma endswith_app e x : endswith e (x ++ e) = true.
Proof. unfold endswith. rewrite rev_app_distr. apply startswith_app. Qed.

Lemma startswith_head_ne c p d s : c <> d -> startswith (c :: p) (d :: s) = false.
Proof. intros H. cbn. apply N.eqb_neq in H. now rewrite H. Qed.

(* the separator starts with a character that does not occur in [a] *)
Lemma partition_str_nohead c sep a b : ~ In c a ->
  partition_str (c :: sep) (a ++ (c :: sep) ++ b) = (a, true, b).
Proof.
  intros Hn. apply partition_str_first; [discriminate|].
  intros a1 a2 E Hne. destruct a2 as [|d a2]; [contradiction|]. cbn [app].
  apply startswith_head_ne. intros <-. apply Hn. rewrite E. apply in_or_app. right. now left.
Qed.

Lemma rpartition_str_nohead sep c a b : ~ In c b ->
  rpartition_str (sep ++ [c]) (a ++ (sep ++ [c]) ++ b) = (a, true, b).
Proof.
  intros Hn. unfold rpartition_str. rewrite !rev_app_distr. cbn [rev app].
  rewrite <- app_assoc.
  replace (rev b ++ (c :: rev sep) ++ rev a) with (rev b ++ (c :: rev sep) ++ rev a) by reflexivity.
  rewrite (partition_str_nohead c (rev sep) (rev b) (rev a)) by now rewrite <- in_rev.
  now rewrite !rev_involutive.
Qed.
