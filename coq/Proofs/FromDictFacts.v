(* Proofs for C13: rebuilding a paragraph from its own dictionary form reproduces that
   dictionary form, given that each of its field values is stable under parse-after-render
   (which RenderFacts proves class by class). *)
From Coq Require Import String.
From Coq Require Import Arith NArith List Bool Lia.
From DI Require Import Result PyStr PyStrFacts Codec CodecFacts Deb822 Deb822Facts Debcon DebconFacts Copyright CopyrightFacts
  Grammar822Header Dep5Facts WordFacts ConserveFacts.
Import ListNotations.
Open Scope N_scope.

Definition RP (c : fclass) (raw : str) : str := fval_dumps (convert c raw).
Definition enc (e : str) : str := match e with [] => [] | _ => as_formatted_text e end.

Lemma enc_is_aft e : enc e = as_formatted_text e.
Proof. destruct e; reflexivity. Qed.

(* the dictionary form of a built paragraph: typed fields first, extra data after *)
Definition KD (t : ptype) (known : pydict str) : pydict str :=
  map (fun kf => (fst kf, RP (snd kf) (lookup (fst kf) known))) (known_fields t).
Definition ED (extra : pydict str) : pydict str := map (fun kv => (fst kv, enc (snd kv))) extra.

Definition extra_keys_ok (t : ptype) (extra : pydict str) : Prop :=
  NoDup (keys extra) /\ forall k, In k (keys extra) -> known_name t k = false /\ ~ In 45 k.

Lemma to_dict_shape t known extra lines : extra_keys_ok t extra ->
  para_to_dict (build_para t known extra lines) = KD t known ++ ED extra.
Proof.
  intros [Hnd Hk]. unfold para_to_dict, build_para. cbn [p_extra].
  assert (E1 : known_to_dict {| p_type := t; p_fields := map (fun kf => (fst kf, convert (snd kf) match dict_get (fst kf) known with Some v => v | None => [] end)) (known_fields t); p_extra := extra; p_lines := lines |} = KD t known).
  { unfold known_to_dict, KD. cbn [p_fields]. rewrite map_map. reflexivity. }
  rewrite E1. assert (E2 : extra_to_dict extra = ED extra).
  { unfold extra_to_dict, ED. apply map_ext. intros [k v]. cbn [fst snd]. destruct v; reflexivity. }
  rewrite E2. apply fold_put_fresh.
  - unfold ED, keys. rewrite map_map. exact Hnd.
  - intros k Hi. unfold ED, keys in Hi. rewrite map_map in Hi. cbn [fst] in Hi. destruct (Hk k Hi) as [Hkn _].
    unfold KD, keys. rewrite map_map. cbn [fst]. intros Hin. apply known_name_In in Hin. congruence.
Qed.

(* known field names hold no hyphen *)
Lemma known_names_no_hyphen t : Forall (fun kf => replace_char 45 95 (fst kf) = fst kf) (known_fields t).
Proof. destruct t; repeat constructor. Qed.

Definition from_dict_step (t : ptype) (acc : pydict str * pydict str) (kv : str * str) : pydict str * pydict str :=
  let key := replace_char 45 95 (fst kv) in
  match snd kv with
  | [] => acc
  | v => if known_name t key then (dict_put key v (fst acc), snd acc)
         else (fst acc, dict_put key (from_formatted_text v) (snd acc))
  end.

Lemma para_from_dict_unfold t d :
  para_from_dict t d = let '(known, extra) := fold_left (from_dict_step t) d ([], []) in build_para t known extra [].
Proof. reflexivity. Qed.

Lemma replace_no_hyphen k : ~ In 45 k -> replace_char 45 95 k = k.
Proof.
  unfold replace_char. induction k as [|c k IH]; intros H; [reflexivity|]. cbn [map].
  destruct (N.eqb_spec c 45) as [->|Hc]; [exfalso; apply H; now left|]. f_equal. apply IH. intros Hi. apply H. now right.
Qed.

(* feeding the typed part: every known field with a non-empty rendering is stored under its own name *)
Lemma fold_known t known : forall (fs : list (str * fclass)) K0 E0,
  Forall (fun kf => replace_char 45 95 (fst kf) = fst kf /\ known_name t (fst kf) = true) fs ->
  NoDup (map fst fs) -> (forall kf, In kf fs -> ~ In (fst kf) (keys K0)) ->
  exists K1, fold_left (from_dict_step t) (map (fun kf => (fst kf, RP (snd kf) (lookup (fst kf) known))) fs) (K0, E0) = (K1, E0) /\
    (forall k, (forall kf, In kf fs -> fst kf <> k) -> lookup k K1 = lookup k K0) /\
    (forall kf, In kf fs -> lookup (fst kf) K1 = RP (snd kf) (lookup (fst kf) known)) /\
    (forall k, In k (keys K1) -> In k (keys K0) \/ In k (map fst fs)).
Proof.
  induction fs as [|[k c] fs IH]; intros K0 E0 Hf Hnd Hfresh.
  - exists K0. cbn. repeat split; auto; intros kf [].
  - inversion Hf as [|? ? [Hr Hkn] Hf']; subst. cbn [fst snd] in *. inversion Hnd as [|? ? Hni Hnd']; subst.
    cbn [map fold_left]. unfold from_dict_step at 2. cbn [fst snd]. rewrite Hr.
    destruct (RP c (lookup k known)) as [|x v] eqn:Ev.
    + destruct (IH K0 E0 Hf' Hnd') as (K1 & E & H1 & H2 & H3); [intros kf Hin; apply Hfresh; now right|].
      exists K1. split; [exact E|]. split; [|split].
      * intros k' Hk'. apply H1. intros kf Hin. apply Hk'. now right.
      * intros kf [Heq|Hin]; [|now apply H2]. inversion Heq; subst. cbn [fst snd]. rewrite Ev.
        rewrite H1 by (intros kf Hin E'; apply Hni; rewrite <- E'; now apply in_map).
        unfold lookup. rewrite dict_get_absent; [reflexivity|]. apply (Hfresh (k, c)). now left.
      * intros k' Hk'. destruct (H3 k' Hk') as [H|H]; [now left|right; now right].
    + rewrite Hkn.
      assert (Hk0 : ~ In k (keys K0)) by (apply (Hfresh (k, c)); now left).
      rewrite dict_put_fresh by now apply dict_get_absent.
      destruct (IH (K0 ++ [(k, x :: v)]) E0 Hf' Hnd') as (K1 & E & H1 & H2 & H3).
      { intros kf Hin Hi. rewrite keys_app in Hi. apply in_app_or in Hi as [Hi|[Hi|[]]]; [apply (Hfresh kf); [now right|exact Hi]|].
        cbn in Hi. apply Hni. rewrite Hi. now apply in_map. }
      exists K1. split; [exact E|]. split; [|split].
      * intros k' Hk'. rewrite H1 by (intros kf Hin; apply Hk'; now right). unfold lookup.
        assert (Hne : k' <> k) by (intros ->; now apply (Hk' (k, c) (or_introl eq_refl))).
        clear -Hne. induction K0 as [|[a b] K0 IHK]; cbn [app dict_get].
        -- destruct (str_eqb k' k) eqn:E; [apply str_eqb_eq in E; contradiction|reflexivity].
        -- destruct (str_eqb k' a); [reflexivity|exact IHK].
      * intros kf [Heq|Hin]; [|now apply H2]. inversion Heq; subst. cbn [fst snd]. rewrite Ev.
        rewrite H1 by (intros kf Hin E'; apply Hni; rewrite <- E'; now apply in_map). unfold lookup.
        clear -Hk0. induction K0 as [|[a b] K0 IHK]; cbn [app dict_get]; [now rewrite str_eqb_refl|].
        destruct (str_eqb k a) eqn:E; [apply str_eqb_eq in E; subst; exfalso; apply Hk0; now left|]. apply IHK. intros Hi. apply Hk0. now right.
      * intros k' Hk'. destruct (H3 k' Hk') as [H|H]; [|right; now right]. rewrite keys_app in H.
        apply in_app_or in H as [H|[H|[]]]; [now left|right; left; now cbn in H].
Qed.

Lemma fold_known_all t known :
  exists K1, fold_left (from_dict_step t) (KD t known) (@nil (str * str), @nil (str * str)) = (K1, @nil (str * str)) /\
    (forall kf, In kf (known_fields t) -> lookup (fst kf) K1 = RP (snd kf) (lookup (fst kf) known)).
Proof.
  destruct (fold_known t known (known_fields t) [] []) as (K1 & E1 & H1 & H2 & H3).
  - pose proof (known_names_no_hyphen t) as Hh. rewrite Forall_forall in *. intros kf Hin. split; [now apply Hh|].
    apply known_name_In. now apply in_map.
  - apply known_names_nodup.
  - intros kf _ [].
  - exists K1. split; [exact E1|exact H2].
Qed.

(* feeding the extra part *)
Lemma fold_extra t : forall (ex : pydict str) K0 E0,
  (forall k, In k (keys ex) -> known_name t k = false /\ ~ In 45 k) -> NoDup (keys ex) ->
  (forall k, In k (keys ex) -> ~ In k (keys E0)) ->
  Forall (fun kv => enc (snd kv) <> []) ex ->
  fold_left (from_dict_step t) (ED ex) (K0, E0) = (K0, E0 ++ map (fun kv => (fst kv, from_formatted_text (enc (snd kv)))) ex).
Proof.
  induction ex as [|[k e] ex IH]; intros K0 E0 Hk Hnd Hfresh Hne; [cbn; now rewrite app_nil_r|].
  cbn [ED map fold_left fst snd]. unfold from_dict_step at 2. cbn [fst snd].
  destruct (Hk k (or_introl eq_refl)) as [Hkn H45]. rewrite (replace_no_hyphen k H45), Hkn.
  inversion Hne as [|? ? He Hne']; subst. cbn [snd] in He. destruct (enc e) as [|x v] eqn:Ee; [contradiction|].
  inversion Hnd as [|? ? Hni Hnd']; subst.
  rewrite dict_put_fresh by (apply dict_get_absent, Hfresh; now left).
  fold (ED ex). rewrite IH; [now rewrite <- app_assoc|intros k' Hk'; apply Hk; now right|exact Hnd'| |exact Hne'].
  intros k' Hk' Hi. rewrite keys_app in Hi. apply in_app_or in Hi as [Hi|[Hi|[]]]; [apply (Hfresh k'); [now right|exact Hi]|].
  cbn in Hi. subst k'. contradiction.
Qed.

Theorem from_dict_to_dict t known extra lines :
  extra_keys_ok t extra ->
  Forall (fun kv => enc (snd kv) <> [] /\
                    as_formatted_text (from_formatted_text (as_formatted_text (snd kv))) = as_formatted_text (snd kv)) extra ->
  Forall (fun kf => let raw := lookup (fst kf) known in RP (snd kf) (RP (snd kf) raw) = RP (snd kf) raw) (known_fields t) ->
  let p := build_para t known extra lines in
  para_to_dict (para_from_dict t (para_to_dict p)) = para_to_dict p.
Proof.
  intros Hek Hex Hkn p. subst p. rewrite (to_dict_shape t known extra lines Hek).
  rewrite para_from_dict_unfold. destruct Hek as [Hnd Hk].
  destruct (fold_known_all t known) as (K1 & E1 & H2).
  set (E' := map (fun kv : str * str => (fst kv, from_formatted_text (enc (snd kv)))) extra).
  destruct (fold_left (from_dict_step t) (KD t known ++ ED extra) ([], [])) as [a b] eqn:Ef.
  rewrite fold_left_app, E1 in Ef.
  assert (Ex : fold_left (from_dict_step t) (ED extra) (K1, []) = (K1, [] ++ E')).
  { apply fold_extra; [exact Hk|exact Hnd|intros k _ []|eapply Forall_impl; [|exact Hex]; now intros kv [H _]]. }
  assert (Eab : (a, b) = (K1, [] ++ E')) by exact (eq_trans (eq_sym Ef) Ex).
  inversion Eab; subst a b. cbn [app].
  assert (Hek' : extra_keys_ok t E').
  { subst E'. unfold extra_keys_ok, keys. rewrite map_map. cbn [fst]. split; [exact Hnd|exact Hk]. }
  rewrite (to_dict_shape t K1 E' [] Hek'). f_equal.
  - unfold KD. apply map_ext_Forall. rewrite Forall_forall in *. intros kf Hin. f_equal. rewrite (H2 kf Hin). now apply Hkn.
  - subst E'. unfold ED. rewrite map_map. apply map_ext_Forall. eapply Forall_impl; [|exact Hex]. intros [k e] [_ He]. cbn [fst snd] in *. f_equal.
    rewrite !enc_is_aft. exact He.
Qed.
