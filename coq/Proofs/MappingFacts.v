(* Proofs for C19: Debian822 refines a plain dict keyed by lower-cased names. *)
From Coq Require Import String.
From Coq Require Import NArith ZArith List Bool Lia.
From DI Require Import Result PyStr PyStrFacts Debcon Copyright Deps Mapping VersionFacts.
Import ListNotations.
Open Scope N_scope.

Section Refine.
  Variable lower : str -> str.
  Variable V : Type.

  Lemma update_lowered items : forall d,
    fold_left (fun d kv => dict_put (lower (fst kv)) (snd kv) d) items d =
    fold_left (fun d (kv : str * V) => dict_put (fst kv) (snd kv) d) (map (fun kv => (lower (fst kv), snd kv)) items) d.
  Proof. induction items as [|kv items IH]; intros d; [reflexivity|]. cbn [fold_left map fst snd]. apply IH. Qed.

  Lemma step_refines d o : step822 lower V d o = step_dict V d (lower_op lower V o).
  Proof. destruct o; try reflexivity. cbn [step822 step_dict lower_op]. now rewrite update_lowered. Qed.

  (* any operation history: same observations, step by step, as a plain dict
     driven with the lower-cased keys - including the KeyError outcomes *)
  Theorem run_refines ops : forall d,
    run_ops V (step822 lower V) d ops = run_ops V (step_dict V) d (map (lower_op lower V) ops).
  Proof.
    induction ops as [|o ops IH]; intros d; [reflexivity|].
    cbn [run_ops map]. rewrite step_refines. destruct (step_dict V d (lower_op lower V o)) as [d' ob].
    now rewrite IH.
  Qed.

  (* every construction route from items yields the dict of the lowered items *)
  Lemma from_items_spec items :
    from_items lower V items = fold_left (fun d kv => dict_put (fst kv) (snd kv) d)
                                         (map (fun kv => (lower (fst kv), snd kv)) items) [].
  Proof.
    unfold from_items. generalize (@nil (str * V)). induction items as [|kv items IH]; intros d; [reflexivity|].
    cbn [fold_left map fst snd]. apply IH.
  Qed.
End Refine.

(* ---------- dict laws used to read the refinement ---------- *)

Lemma dict_get_put_same {V} k (v : V) d : dict_get k (dict_put k v d) = Some v.
Proof.
  induction d as [|[k' v'] d IH]; cbn; [now rewrite str_eqb_refl|].
  destruct (str_eqb k k') eqn:E; cbn; rewrite E; [reflexivity|exact IH].
Qed.

Lemma dict_get_put_other {V} k k' (v : V) d : str_eqb k' k = false -> dict_get k' (dict_put k v d) = dict_get k' d.
Proof.
  intros H. induction d as [|[k2 v2] d IH]; cbn; [now rewrite H|].
  destruct (str_eqb k k2) eqn:E; cbn.
  - apply str_eqb_eq in E. subst k2. now rewrite H.
  - destruct (str_eqb k' k2); [reflexivity|exact IH].
Qed.

(* ---------- name capitalisation ---------- *)

Definition ascii_name (n : str) : Prop := Forall (fun c => (c <? 128) = true) n.

Lemma lower_upper_ascii c : c <? 128 = true ->
  lower_ascii_char (upper_ascii_char c) = lower_ascii_char c /\
  lower_ascii_char (lower_ascii_char c) = lower_ascii_char c /\
  upper_ascii_char (lower_ascii_char c) = upper_ascii_char c /\
  (c =? 305) = false /\ (c =? 383) = false /\
  (lower_ascii_char c <? 128) = true /\ (upper_ascii_char c <? 128) = true /\
  upper_ascii_char (upper_ascii_char c) = upper_ascii_char c /\
  (upper_ascii_char c =? 305) = false /\ (upper_ascii_char c =? 383) = false /\
  (lower_ascii_char c =? 45) = (c =? 45) /\ (upper_ascii_char c =? 45) = (c =? 45).
Proof.
  intros H. apply N.ltb_lt in H.
  set (P := fun c =>
    (lower_ascii_char (upper_ascii_char c) =? lower_ascii_char c) &&
    (lower_ascii_char (lower_ascii_char c) =? lower_ascii_char c) &&
    (upper_ascii_char (lower_ascii_char c) =? upper_ascii_char c) &&
    negb (c =? 305) && negb (c =? 383) && (lower_ascii_char c <? 128) && (upper_ascii_char c <? 128) &&
    (upper_ascii_char (upper_ascii_char c) =? upper_ascii_char c) &&
    negb (upper_ascii_char c =? 305) && negb (upper_ascii_char c =? 383) &&
    Bool.eqb (lower_ascii_char c =? 45) (c =? 45) && Bool.eqb (upper_ascii_char c =? 45) (c =? 45)).
  assert (G : P c = true) by (apply (all_below_spec 128 P); [vm_compute; reflexivity|exact H]).
  unfold P in G. repeat (apply andb_true_iff in G as [G ?]).
  repeat match goal with
         | h : (_ =? _) = true |- _ => apply N.eqb_eq in h
         | h : negb _ = true |- _ => apply negb_true_iff in h
         | h : Bool.eqb _ _ = true |- _ => apply Bool.eqb_prop in h
         end.
  repeat split; assumption.
Qed.

Lemma ascii_lower_ascii n : ascii_name n -> ascii_name (lower_ascii n).
Proof.
  unfold ascii_name, lower_ascii. intros H. rewrite Forall_map. eapply Forall_impl; [|exact H].
  intros c Hc. now apply lower_upper_ascii.
Qed.

Lemma lower_ascii_idem n : ascii_name n -> lower_ascii (lower_ascii n) = lower_ascii n.
Proof.
  unfold lower_ascii. intros H. rewrite map_map. apply map_ext_Forall. eapply Forall_impl; [|exact H].
  intros c Hc. now apply lower_upper_ascii.
Qed.

Lemma capitalize_lower w : ascii_name w -> capitalize (lower_ascii w) = capitalize w.
Proof.
  destruct w as [|c w]; [reflexivity|]. intros H. inversion H as [|? ? Hc Hw]; subst.
  destruct (lower_upper_ascii c Hc) as (_ & _ & E3 & E305 & E383 & Hl & _).
  destruct (lower_upper_ascii (lower_ascii_char c) Hl) as (_ & _ & _ & F305 & F383 & _).
  cbn [lower_ascii map capitalize]. rewrite E305, E383, F305, F383, E3. f_equal.
  rewrite map_map. apply map_ext_Forall. eapply Forall_impl; [|exact Hw]. intros x Hx. now apply lower_upper_ascii.
Qed.

Lemma normalize_word_lower w : ascii_name w -> normalize_word (lower_ascii w) = normalize_word w.
Proof. intros H. unfold normalize_word. rewrite lower_ascii_idem by exact H. now rewrite capitalize_lower. Qed.

Lemma ascii_split n : ascii_name n -> Forall ascii_name (split_char 45 n).
Proof.
  unfold split_char. intros H.
  assert (G : forall cur, ascii_name cur -> Forall ascii_name (split_char_aux 45 cur n)).
  { induction H as [|c n Hc Hn IH]; intros cur Hcur; cbn [split_char_aux].
    - constructor; [|constructor]. now apply Forall_rev.
    - destruct (c =? 45).
      + constructor; [now apply Forall_rev|]. apply IH. constructor.
      + apply IH. now constructor. }
  apply G. constructor.
Qed.

(* independent of the input case *)
Theorem normalize_case_independent n : ascii_name n ->
  normalize_control_field_name (lower_ascii n) = normalize_control_field_name n.
Proof.
  intros H. unfold normalize_control_field_name, lower_ascii at 1.
  rewrite split_char_map.
  - rewrite map_map. f_equal. apply map_ext_Forall. eapply Forall_impl; [|exact (ascii_split n H)].
    intros w Hw. now apply normalize_word_lower.
  - intros x. destruct (N.ltb_spec x 128) as [Hx|Hx].
    + apply N.ltb_lt in Hx. now apply lower_upper_ascii.
    + unfold lower_ascii_char, is_ascii_upper.
      assert (E : (x <=? 90) = false) by (apply N.leb_gt; lia). rewrite E, andb_false_r. reflexivity.
Qed.

Corollary normalize_same_case_class n n' : ascii_name n -> ascii_name n' ->
  lower_ascii n = lower_ascii n' -> normalize_control_field_name n = normalize_control_field_name n'.
Proof.
  intros H H' E. rewrite <- (normalize_case_independent n H), <- (normalize_case_independent n' H'). now rewrite E.
Qed.

Lemma capitalize_facts w : ascii_name w ->
  lower_ascii (capitalize w) = lower_ascii w /\ capitalize (capitalize w) = capitalize w /\
  ascii_name (capitalize w) /\ (~ In 45 w -> ~ In 45 (capitalize w)).
Proof.
  destruct w as [|c w]; [intros _; repeat split; auto; constructor|]. intros H.
  inversion H as [|? ? Hc Hw]; subst.
  destruct (lower_upper_ascii c Hc) as (E1 & _ & _ & E305 & E383 & _ & Hu & E8 & U305 & U383 & _ & U45).
  cbn [capitalize]. rewrite E305, E383.
  assert (Hrest : map lower_ascii_char (map lower_ascii_char w) = map lower_ascii_char w).
  { rewrite map_map. apply map_ext_Forall. eapply Forall_impl; [|exact Hw]. intros x Hx. now apply lower_upper_ascii. }
  repeat split.
  - cbn [lower_ascii map]. rewrite E1. f_equal. exact Hrest.
  - cbn [capitalize]. rewrite U305, U383, E8. f_equal. exact Hrest.
  - constructor; [exact Hu|]. unfold ascii_name. rewrite Forall_map. eapply Forall_impl; [|exact Hw].
    intros x Hx. now apply lower_upper_ascii.
  - intros Hn [Hi|Hi].
    + apply Hn. left. apply N.eqb_eq. rewrite <- U45. now apply N.eqb_eq.
    + apply in_map_iff in Hi as (x & Ex & Hx). apply Hn. right.
      assert (Hx128 : x <? 128 = true) by (rewrite Forall_forall in Hw; now apply Hw).
      destruct (lower_upper_ascii x Hx128) as (_ & _ & _ & _ & _ & _ & _ & _ & _ & _ & L45 & _).
      assert (x = 45) by (apply N.eqb_eq; rewrite <- L45; now apply N.eqb_eq). now subst.
Qed.

Lemma concrete_special (x : str) :
  normalize_word x = x -> forallb (fun c => negb (c =? 45) && (c <? 128)) x = true ->
  normalize_word x = x /\ ~ In 45 x /\ ascii_name x.
Proof.
  intros H1 H2. split; [exact H1|]. rewrite forallb_forall in H2. split.
  - intros Hi. specialize (H2 _ Hi). cbn in H2. discriminate.
  - apply Forall_forall. intros c Hc. specialize (H2 _ Hc). now apply andb_true_iff in H2 as [_ H2].
Qed.

Lemma normalize_word_facts w : ascii_name w -> ~ In 45 w ->
  normalize_word (normalize_word w) = normalize_word w /\ ~ In 45 (normalize_word w) /\ ascii_name (normalize_word w).
Proof.
  intros H Hn.
  assert (Hcase : normalize_word w = lit "MD5sum" \/ normalize_word w = lit "SHA1" \/
                  normalize_word w = lit "SHA256" \/
                  (normalize_word w = capitalize w /\
                   str_eqb (lower_ascii w) (lit "md5sum") = false /\
                   str_eqb (lower_ascii w) (lit "sha1") = false /\
                   str_eqb (lower_ascii w) (lit "sha256") = false)).
  { unfold normalize_word. cbv zeta.
    destruct (str_eqb (lower_ascii w) (lit "md5sum")); [now left|].
    destruct (str_eqb (lower_ascii w) (lit "sha1")); [right; now left|].
    destruct (str_eqb (lower_ascii w) (lit "sha256")); [right; right; now left|].
    right; right; right. repeat split. }
  destruct Hcase as [->|[->|[->|(-> & E1 & E2 & E3)]]]; try (apply concrete_special; reflexivity).
  destruct (capitalize_facts w H) as (F1 & F2 & F3 & F4).
  split; [|split; [now apply F4|exact F3]].
  unfold normalize_word. cbv zeta. now rewrite F1, F2, E1, E2, E3.
Qed.

(* idempotent *)
Theorem normalize_idempotent n : ascii_name n ->
  normalize_control_field_name (normalize_control_field_name n) = normalize_control_field_name n.
Proof.
  intros H. unfold normalize_control_field_name at 2.
  set (ws := split_char 45 n).
  assert (Hws : Forall (fun w => ascii_name w /\ ~ In 45 w) ws).
  { subst ws. pose proof (ascii_split n H) as A. pose proof (split_char_nosep 45 n) as B.
    rewrite Forall_forall in *. intros w Hw. split; [now apply A|now apply B]. }
  unfold normalize_control_field_name.
  rewrite split_char_join.
  - rewrite map_map. f_equal. apply map_ext_Forall. eapply Forall_impl; [|exact Hws].
    intros w [Ha Hn]. now apply normalize_word_facts.
  - intros E. apply map_eq_nil in E. exact (split_char_nonempty 45 n E).
  - rewrite Forall_map. eapply Forall_impl; [|exact Hws]. intros w [Ha Hn]. now apply normalize_word_facts.
Qed.

(* ---------- typed control fields ---------- *)

Definition typed_ok (n v : str) (c : cvalue) : Prop :=
  (mem_str n DEPS_FIELDS = true /\ exists r, parse_depends v = Ok r /\ c = CRel r) \/
  (mem_str n DEPS_FIELDS = false /\ str_eqb n (lit "Installed-Size") = true /\
     exists z, py_int v = IntOk z /\ c = CInt z) \/
  (mem_str n DEPS_FIELDS = false /\ str_eqb n (lit "Installed-Size") = false /\ c = CStr v).

Theorem typed_fields items : forall out d,
  parse_control_fields_aux items out = Some (Ok d) ->
  exists cs,
    Forall2 (fun kv c => typed_ok (normalize_control_field_name (fst kv)) (snd kv) c) items cs /\
    d = fold_left (fun acc p => dict_put (fst p) (snd p) acc)
                  (combine (map (fun kv => normalize_control_field_name (fst kv)) items) cs) out.
Proof.
  induction items as [|[k v] items IH]; intros out d H.
  - cbn in H. inversion H; subst. exists []. split; [constructor|reflexivity].
  - cbn [parse_control_fields_aux] in H. cbv zeta in H.
    set (n := normalize_control_field_name k) in *.
    destruct (mem_str n DEPS_FIELDS) eqn:Ed.
    + destruct (parse_depends v) as [r|e] eqn:Ep; [|discriminate].
      destruct (IH _ _ H) as (cs & F & Ed'). exists (CRel r :: cs). split.
      * constructor; [|exact F]. left. cbn [fst snd]. fold n. split; [exact Ed|]. now exists r.
      * cbn [map combine fold_left fst snd]. fold n. exact Ed'.
    + destruct (str_eqb n (lit "Installed-Size")) eqn:Ei.
      * destruct (py_int v) as [z| |] eqn:Ez; try discriminate.
        destruct (IH _ _ H) as (cs & F & Ed'). exists (CInt z :: cs). split.
        -- constructor; [|exact F]. right. left. cbn [fst snd]. fold n. repeat split; try assumption. now exists z.
        -- cbn [map combine fold_left fst snd]. fold n. exact Ed'.
      * destruct (IH _ _ H) as (cs & F & Ed'). exists (CStr v :: cs). split.
        -- constructor; [|exact F]. right. right. cbn [fst snd]. fold n. repeat split; assumption.
        -- cbn [map combine fold_left fst snd]. fold n. exact Ed'.
Qed.




