(* Proofs for C14 at the level of whole fields: comma-separated groups of "|"-separated
   alternatives with arbitrary white space around every alternative. *)
From Coq Require Import String.
From Coq Require Import Arith NArith List Bool Lia.
From DI Require Import Result PyStr PyStrFacts Deps DepsGrammar ParseFacts DepsParseFacts.
Import ListNotations.
Open Scope N_scope.

(* ---------- a rendered alternative is a solid block without "," and "|" ---------- *)

Definition solid (x : str) : Prop :=
  x <> [] /\ (match x with c :: _ => is_space c = false | [] => True end) /\
  (match rev x with c :: _ => is_space c = false | [] => True end).

Lemma no_char_app c (a b : str) : ~ In c a -> ~ In c b -> ~ In c (a ++ b).
Proof. intros Ha Hb Hi. apply in_app_or in Hi as [Hi|Hi]; contradiction. Qed.

Lemma token_no c bad t : token bad t -> In c bad -> ~ In c t.
Proof. intros Ht Hc Hi. destruct (token_facts _ _ Ht) as (_ & _ & Hb). rewrite Forall_forall in Hb. exact (Hb _ Hi Hc). Qed.

Lemma op_no c o : wf_op o -> is_op_char c = false -> ~ In c o.
Proof.
  intros Ho Hc Hi. destruct (wf_op_facts o Ho) as (_ & Hall & _). unfold all_op in Hall. rewrite Forall_forall in Hall.
  specialize (Hall _ Hi). congruence.
Qed.

Lemma rendered_no_sep l a c : wf_alt a -> wf_layout a l -> (c = 44 \/ c = 124) -> ~ In c (render_alt l a).
Proof.
  intros (Hn & Hv & Ha) (L1 & L2 & L3 & L4 & L5 & L6 & L7 & L8 & L9) Hc.
  assert (Hsp : is_space c = false) by (destruct Hc as [->| ->]; reflexivity).
  assert (Hop : is_op_char c = false) by (destruct Hc as [->| ->]; reflexivity).
  assert (Hne : c <> 40 /\ c <> 41 /\ c <> 91 /\ c <> 93) by (destruct Hc as [->| ->]; repeat split; discriminate).
  destruct Hne as (N40 & N41 & N91 & N93).
  assert (S1 : forall x, x <> c -> ~ In c [x]) by (intros x Hx [E|[]]; congruence).
  unfold render_alt. apply no_char_app; [apply (token_no c _ _ Hn); destruct Hc as [->| ->]; cbn; tauto|]. apply no_char_app.
  - destruct (g_ver a) as [[o v]|]; [|intros []]. destruct Hv as [Ho Hv].
    repeat apply no_char_app; try (apply ws_not_In; [exact Hsp|assumption]); try (apply S1; congruence).
    + apply ws_not_In; [exact Hsp|now apply spaces_ws].
    + now apply op_no.
    + apply (token_no c _ _ Hv). destruct Hc as [->| ->]; cbn; tauto.
  - destruct (g_archs a) as [|a0 archs] eqn:Ea; [intros []|]. rewrite <- Ea in *.
    repeat apply no_char_app; try (apply ws_not_In; [exact Hsp|assumption]); try (apply S1; congruence).
    + apply ws_not_In; [exact Hsp|]. destruct (g_ver a); [assumption|now apply spaces_ws].
    + apply interleave_no.
      * eapply Forall_impl; [|exact Ha]. intros x Hx. apply (token_no c _ _ Hx). destruct Hc as [->| ->]; cbn; tauto.
      * eapply Forall_impl; [|exact L9]. intros w [Hw _]. now apply ws_not_In.
Qed.

Lemma rev_last_char (x : str) c : rev (x ++ [c]) = c :: rev x.
Proof. now rewrite rev_app_distr. Qed.

Lemma rendered_solid l a : wf_alt a -> wf_layout a l -> solid (render_alt l a).
Proof.
  intros (Hn & Hv & Ha) _. destruct (token_facts _ _ Hn) as (Nne & Nns & _).
  destruct (nospace_ends _ Nns Nne) as [Hh Hl]. unfold solid, render_alt.
  destruct (g_name a) as [|c n] eqn:En; [contradiction|]. split; [discriminate|]. split; [inversion Nns; assumption|].
  destruct (g_archs a) as [|a0 archs].
  - rewrite app_nil_r. destruct (g_ver a) as [[o v]|].
    + rewrite !app_assoc, rev_last_char. reflexivity.
    + rewrite app_nil_r. exact Hl.
  - rewrite !app_assoc, rev_last_char. reflexivity.
Qed.

(* ---------- groups and fields with arbitrary padding ---------- *)

Record ralt := mkRalt { r_before : str; r_layout : layout; r_alt : alt; r_after : str }.

Definition wf_ralt (r : ralt) : Prop :=
  ws (r_before r) /\ ws (r_after r) /\ wf_alt (r_alt r) /\ wf_layout (r_alt r) (r_layout r).

Definition R (r : ralt) : str := render_alt (r_layout r) (r_alt r).
Definition render_ralt (r : ralt) : str := r_before r ++ R r ++ r_after r.
Definition render_group (g : list ralt) : str := join [124] (map render_ralt g).
Definition render_field (f : list (list ralt)) : str := join [44] (map render_group f).

Definition tree_group (g : list ralt) : rel :=
  match g with
  | [r] => tree_alt (r_alt r)
  | _ => OrRel (map (fun r => tree_alt (r_alt r)) g)
  end.

Lemma ralt_facts r : wf_ralt r -> strip (render_ralt r) = R r /\ all_space (render_ralt r) = false /\
  ~ In 44 (render_ralt r) /\ ~ In 124 (render_ralt r).
Proof.
  intros (Hb & Ha & Hw & Hl). destruct (rendered_solid _ _ Hw Hl) as (Hne & Hh & Hlast). unfold render_ralt. split; [|split; [|split]].
  - now apply strip_pad.
  - unfold all_space. rewrite !forallb_app. fold (R r) in *. destruct (R r) as [|c x]; [contradiction|]. cbn [forallb].
    rewrite Hh. cbn [andb]. now rewrite andb_false_r.
  - apply no_char_app; [apply ws_not_In; [reflexivity|assumption]|]. apply no_char_app; [apply rendered_no_sep; auto|apply ws_not_In; [reflexivity|assumption]].
  - apply no_char_app; [apply ws_not_In; [reflexivity|assumption]|]. apply no_char_app; [apply rendered_no_sep; auto|apply ws_not_In; [reflexivity|assumption]].
Qed.

Lemma nonblank_stripped_ralts g : Forall wf_ralt g -> nonblank_stripped (map render_ralt g) = map R g.
Proof.
  unfold nonblank_stripped. induction 1 as [|r g Hr _ IH]; [reflexivity|]. cbn [map filter].
  destruct (ralt_facts r Hr) as (Hs & Hb & _). rewrite Hb. cbn [negb map]. now rewrite Hs, IH.
Qed.

Lemma mapM_parse g : Forall wf_ralt g -> mapM parse_relationship (map R g) = Ok (map (fun r => tree_alt (r_alt r)) g).
Proof.
  induction 1 as [|r g (_ & _ & Hw & Hl) _ IH]; [reflexivity|]. cbn [map mapM]. unfold R at 1.
  rewrite parse_rendered_alt by assumption. cbn [bind]. now rewrite IH.
Qed.

(* the text of a group after trimming: still every alternative with its inner padding *)
Lemma strip_app_ws_l w x : ws w -> strip (w ++ x) = strip x.
Proof. intros H. unfold strip, strip_by, lstrip_by. rewrite drop_while_app_all by now apply ws_forallb. reflexivity. Qed.

Lemma mem_char_join_sep c a b (rest : list str) : mem_char c (join [c] (a :: b :: rest)) = true.
Proof. apply mem_char_In. rewrite join_cons. apply in_or_app. right. now left. Qed.

Lemma join_no c (ls : list str) : Forall (fun w => ~ In c w) ls -> forall d, d <> c -> ~ In c (join [d] ls).
Proof.
  intros H d Hd. induction H as [|w ls Hw _ IH]; [intros []|]. destruct ls as [|w2 ls]; [exact Hw|].
  rewrite join_cons. apply no_char_app; [exact Hw|]. apply no_char_app; [intros [E|[]]; congruence|exact IH].
Qed.

Lemma join_head c (b x : str) (L : list str) : join [c] ((b ++ x) :: L) = b ++ join [c] (x :: L).
Proof. destruct L as [|l L]; [reflexivity|]. rewrite !join_cons. now rewrite <- app_assoc. Qed.

Lemma join_last c (L : list str) (y a : str) : join [c] (L ++ [y ++ a]) = join [c] (L ++ [y]) ++ a.
Proof.
  induction L as [|l L IH]; [reflexivity|]. cbn [app]. destruct (L ++ [y ++ a]) as [|m M] eqn:E1; [destruct L; discriminate|].
  destruct (L ++ [y]) as [|m' M'] eqn:E2; [destruct L; discriminate|]. rewrite !join_cons. rewrite IH. now rewrite <- !app_assoc.
Qed.

Lemma join_suffix c (L : list str) (p y : str) : exists pre, join [c] (L ++ [p ++ y]) = pre ++ y.
Proof.
  induction L as [|l L IH]; [exists p; reflexivity|]. destruct IH as (pre & E). cbn [app].
  destruct (L ++ [p ++ y]) as [|m M] eqn:EM; [destruct L; discriminate|]. rewrite join_cons, E. exists (l ++ [c] ++ pre). now rewrite <- !app_assoc.
Qed.

(* a group *)
Theorem parse_group g : g <> [] -> Forall wf_ralt g ->
  exists x, strip (render_group g) = x /\ all_space (render_group g) = false /\ ~ In 44 (render_group g) /\
            parse_alternatives x = Ok (tree_group g).
Proof.
  intros Hne Hg. eexists. split; [reflexivity|].
  assert (Hno44 : ~ In 44 (render_group g)).
  { unfold render_group. apply join_no; [|discriminate]. rewrite Forall_map. eapply Forall_impl; [|exact Hg]. intros r Hr. apply (ralt_facts r Hr). }
  destruct g as [|r [|r2 g']]; [contradiction| |].
  - (* one alternative *)
    inversion Hg as [|? ? Hr _]; subst. unfold render_group. cbn [map join]. destruct (ralt_facts r Hr) as (Hs & Hb & _ & H124).
    split; [exact Hb|]. split; [exact Hno44|]. rewrite Hs. unfold parse_alternatives.
    assert (E : mem_char 124 (R r) = false).
    { apply mem_char_false. destruct Hr as (_ & _ & Hw & Hl). apply rendered_no_sep; auto. }
    rewrite E. cbn [tree_group]. destruct Hr as (_ & _ & Hw & Hl). now apply parse_rendered_alt.
  - (* several alternatives: trimming removes only the outer padding; splitting at "|" and trimming the pieces gives the alternatives *)
    set (G := r :: r2 :: g') in *.
    assert (Hpieces : Forall (fun w => ~ In 124 w) (map render_ralt G)).
    { rewrite Forall_map. eapply Forall_impl; [|exact Hg]. intros x Hx. apply (ralt_facts x Hx). }
    assert (Hblank : all_space (render_group G) = false).
    { unfold render_group. subst G. cbn [map]. rewrite join_cons. inversion Hg as [|? ? Hr _]; subst.
      destruct (ralt_facts r Hr) as (_ & Hb & _). unfold all_space in *. rewrite forallb_app, Hb. reflexivity. }
    split; [exact Hblank|]. split; [exact Hno44|].
    (* strip X = w1-less, w2-less text; its pieces differ from the original ones only by outer padding *)
    unfold parse_alternatives.
    assert (Hsplit : exists pieces, split_char 124 (strip (render_group G)) = pieces /\ nonblank_stripped pieces = map R G /\
                                    mem_char 124 (strip (render_group G)) = true).
    { (* describe strip (render_group G) as join of modified pieces *)
      destruct (exists_last (l := G)) as (mid & rl & EG); [subst G; discriminate|].
      destruct mid as [|r0 mid'].
      { subst G. destruct g'; discriminate. }
      assert (Er0 : r0 = r) by (subst G; cbn [app] in EG; now inversion EG). subst r0.
      assert (Hg' : Forall wf_ralt ((r :: mid') ++ [rl])) by (rewrite <- EG; exact Hg).
      apply Forall_app in Hg' as [Hmid Hrl]. inversion Hrl as [|? ? Hrl' _]; subst. inversion Hmid as [|? ? Hr Hmid']; subst.
      set (first' := R r ++ r_after r). set (last' := r_before rl ++ R rl).
      assert (Etext : render_group G = r_before r ++ join [124] (first' :: map render_ralt mid' ++ [last']) ++ r_after rl).
      { unfold render_group. rewrite EG. cbn [app map]. rewrite map_app. cbn [map]. subst first' last'.
        unfold render_ralt at 1. rewrite join_head. f_equal. unfold render_ralt at 2. rewrite app_assoc.
        change ((R r ++ r_after r) :: map render_ralt mid' ++ [(r_before rl ++ R rl) ++ r_after rl])
          with (((R r ++ r_after r) :: map render_ralt mid') ++ [(r_before rl ++ R rl) ++ r_after rl]).
        rewrite join_last. reflexivity. }
      destruct Hr as (Hb & Ha & Hw & Hl). destruct Hrl' as (Hb' & Ha' & Hw' & Hl').
      destruct (rendered_solid _ _ Hw Hl) as (Hne1 & Hh1 & _). destruct (rendered_solid _ _ Hw' Hl') as (Hne2 & _ & Hl2).
      set (J := join [124] (first' :: map render_ralt mid' ++ [last'])) in *.
      assert (HJ : strip (r_before r ++ J ++ r_after rl) = J).
      { apply strip_pad; try assumption.
        - subst J first'. destruct (map render_ralt mid' ++ [last']) eqn:E; [destruct (map render_ralt mid'); discriminate|].
          rewrite join_cons. fold (R r) in Hne1. destruct (R r); [contradiction|discriminate].
        - subst J first'. destruct (map render_ralt mid' ++ [last']) eqn:E; [destruct (map render_ralt mid'); discriminate|].
          rewrite join_cons. fold (R r) in Hh1, Hne1. destruct (R r); [contradiction|exact Hh1].
        - subst J. assert (E : exists pre, join [124] (first' :: map render_ralt mid' ++ [last']) = pre ++ R rl).
          { subst last'. apply (join_suffix 124 (first' :: map render_ralt mid') (r_before rl) (R rl)). }
          destruct E as (pre & E). rewrite E, rev_app_distr. fold (R rl) in Hl2, Hne2.
          destruct (rev (R rl)) as [|c x] eqn:Er; [apply (f_equal (@rev char)) in Er; rewrite rev_involutive in Er; contradiction|exact Hl2]. }
      rewrite Etext, HJ. eexists. split; [reflexivity|]. subst J.
      assert (Hp : Forall (fun w => ~ In 124 w) (first' :: map render_ralt mid' ++ [last'])).
      { constructor.
        - subst first'. apply no_char_app; [apply rendered_no_sep; auto|apply ws_not_In; [reflexivity|assumption]].
        - apply Forall_app; split.
          + rewrite Forall_map. eapply Forall_impl; [|exact Hmid']. intros x Hx. apply (ralt_facts x Hx).
          + constructor; [|constructor]. subst last'. apply no_char_app; [apply ws_not_In; [reflexivity|assumption]|apply rendered_no_sep; auto]. }
      rewrite split_char_join by (discriminate || exact Hp). split.
      -         assert (F1 : all_space first' = false /\ strip first' = R r).
        { subst first'. split.
          - unfold all_space. rewrite forallb_app. fold (R r) in *. destruct (R r); [contradiction|]. cbn [forallb]. now rewrite Hh1.
          - rewrite <- (app_nil_l (R r ++ r_after r)). destruct (rendered_solid _ _ Hw Hl) as (S1 & S2 & S3). apply strip_pad; [constructor|assumption|exact S1|exact S2|exact S3]. }
        assert (F2 : all_space last' = false /\ strip last' = R rl).
        { subst last'. split.
          - unfold all_space. rewrite forallb_app. fold (R rl) in *.
            destruct (rendered_solid _ _ Hw' Hl') as (_ & Hh2 & _). fold (R rl) in Hh2. destruct (R rl); [contradiction|]. cbn [forallb]. rewrite Hh2. now rewrite andb_false_r.
          - replace (r_before rl ++ R rl) with (r_before rl ++ R rl ++ []) by now rewrite app_nil_r.
            destruct (rendered_solid _ _ Hw' Hl') as (S1 & S2 & S3). apply strip_pad; [assumption|constructor|exact S1|exact S2|exact S3]. }
        destruct F1 as [F1a F1b]. destruct F2 as [F2a F2b].
        rewrite EG. cbn [app map]. rewrite map_app. cbn [map]. unfold nonblank_stripped. cbn [filter]. rewrite F1a. cbn [negb map].
        rewrite F1b. f_equal. rewrite filter_app, map_app. cbn [filter]. rewrite F2a. cbn [negb map]. rewrite F2b. f_equal.
        fold (nonblank_stripped (map render_ralt mid')). now apply nonblank_stripped_ralts.
      - destruct (map render_ralt mid' ++ [last']) as [|m M] eqn:EM; [destruct (map render_ralt mid'); discriminate|].
        apply mem_char_join_sep. }
    destruct Hsplit as (pieces & Esp & Enb & Emem). rewrite Emem, Esp, Enb, mapM_parse by exact Hg. reflexivity.
Qed.

(* a whole field *)
Definition wf_field (f : list (list ralt)) : Prop := Forall (fun g => g <> [] /\ Forall wf_ralt g) f.

Theorem parse_field f : wf_field f -> parse_depends (render_field f) = Ok (AndRel (map tree_group f)).
Proof.
  intros Hf. unfold parse_depends, render_field. destruct f as [|g0 f0]; [reflexivity|]. set (f := g0 :: f0) in *.
  assert (Hno : Forall (fun w => ~ In 44 w) (map render_group f)).
  { rewrite Forall_map. eapply Forall_impl; [|exact Hf]. intros g [Hne Hg]. destruct (parse_group g Hne Hg) as (x & _ & _ & H & _). exact H. }
  rewrite split_char_join by (subst f; discriminate || exact Hno).
  assert (G : mapM parse_alternatives (nonblank_stripped (map render_group f)) = Ok (map tree_group f)).
  { clear Hno. unfold nonblank_stripped. induction Hf as [|g f' [Hne Hg] _ IH]; [reflexivity|]. cbn [map filter].
    destruct (parse_group g Hne Hg) as (x & Ex & Hb & _ & Hp). rewrite Hb. cbn [negb map mapM]. rewrite Ex, Hp. cbn [bind]. now rewrite IH. }
  now rewrite G.
Qed.

(* the names reported for a field are exactly the names mentioned, in order *)
Lemma names_group g : rel_names (tree_group g) = map (fun r => g_name (r_alt r)) g.
Proof.
  assert (G : flat_map rel_names (map (fun r => tree_alt (r_alt r)) g) = map (fun r => g_name (r_alt r)) g).
  { induction g as [|r g IH]; [reflexivity|]. cbn [map flat_map]. rewrite IH, names_of_alt. reflexivity. }
  destruct g as [|r [|r2 g']]; [reflexivity| |exact G]. cbn [tree_group map]. apply names_of_alt.
Qed.

Theorem names_field f : rel_names (AndRel (map tree_group f)) = flat_map (fun g => map (fun r => g_name (r_alt r)) g) f.
Proof.
  cbn [rel_names]. induction f as [|g f IH]; [reflexivity|]. cbn [map flat_map]. rewrite IH. f_equal. apply names_group.
Qed.


(* ---------- the string form of a whole field parses back to an equal object ---------- *)

Lemma join_pad_gen (c : char) (pad : str) x ys : join (c :: pad) (x :: ys) = join [c] (x :: map (fun y => pad ++ y) ys).
Proof.
  revert x; induction ys as [|y ys IH]; intros x; [reflexivity|]. cbn [map]. rewrite !join_cons, IH.
  f_equal. cbn [app]. f_equal. destruct (map (fun y0 => pad ++ y0) ys) as [|m M]; [reflexivity|].
  rewrite !join_cons. now rewrite <- app_assoc.
Qed.

(* " | " between alternatives: a blank after every alternative but the last, one before every one but the first *)
Fixpoint canon_alts (before : str) (g : list alt) : list ralt :=
  match g with
  | [] => []
  | [a] => [mkRalt before (canonical_layout a) a []]
  | a :: rest => mkRalt before (canonical_layout a) a [32] :: canon_alts [32] rest
  end.

Definition canon_text (g : list alt) : str := join (lit " | ") (map canonical_alt g).

Lemma join_cons_ne sep x (l : list str) : l <> [] -> join sep (x :: l) = x ++ sep ++ join sep l.
Proof. destruct l as [|y l]; [contradiction|]. intros _. apply join_cons. Qed.

Lemma render_canon_alts g : forall before, g <> [] -> render_group (canon_alts before g) = before ++ canon_text g.
Proof.
  unfold render_group, canon_text. induction g as [|a g IH]; intros before Hne; [contradiction|]. destruct g as [|a2 g'].
  - cbn [canon_alts map join]. unfold render_ralt, R. cbn [r_before r_layout r_alt r_after]. now rewrite <- canonical_is_render, app_nil_r.
  - change (canon_alts before (a :: a2 :: g')) with (mkRalt before (canonical_layout a) a [32] :: canon_alts [32] (a2 :: g')).
    cbn [map]. rewrite join_cons_ne by (destruct g'; discriminate). rewrite (IH [32] ltac:(discriminate)).
    unfold render_ralt at 1, R. cbn [r_before r_layout r_alt r_after]. rewrite <- canonical_is_render.
    change (map canonical_alt (a :: a2 :: g')) with (canonical_alt a :: map canonical_alt (a2 :: g')).
    rewrite (join_cons_ne (lit " | ")) by discriminate.
    change (lit " | ") with ([32] ++ [124] ++ [32]). now rewrite <- !app_assoc.
Qed.

Lemma canon_alts_wf g : forall before, ws before -> Forall wf_alt g -> Forall wf_ralt (canon_alts before g).
Proof.
  induction g as [|a g IH]; intros before Hb Hg; [constructor|]. inversion Hg as [|? ? Ha Hg']; subst. destruct g as [|a2 g'].
  - constructor; [|constructor]. unfold wf_ralt. cbn [r_before r_after r_alt r_layout]. split; [exact Hb|split; [apply Forall_nil|split; [exact Ha|apply canonical_layout_wf]]].
  - change (canon_alts before (a :: a2 :: g')) with (mkRalt before (canonical_layout a) a [32] :: canon_alts [32] (a2 :: g')).
    constructor; [|apply IH; [repeat constructor|exact Hg']]. unfold wf_ralt. cbn [r_before r_after r_alt r_layout]. split; [exact Hb|split; [repeat constructor|split; [exact Ha|apply canonical_layout_wf]]].
Qed.

Lemma canon_alts_alts g : forall before, map r_alt (canon_alts before g) = g.
Proof.
  induction g as [|a g IH]; intros before; [reflexivity|]. destruct g as [|a2 g']; [reflexivity|].
  change (canon_alts before (a :: a2 :: g')) with (mkRalt before (canonical_layout a) a [32] :: canon_alts [32] (a2 :: g')).
  cbn [map r_alt]. now rewrite IH.
Qed.

Definition tree_alts (g : list alt) : rel :=
  match g with [a] => tree_alt a | _ => OrRel (map tree_alt g) end.

Lemma tree_group_canon g before : tree_group (canon_alts before g) = tree_alts g.
Proof.
  unfold tree_group, tree_alts. pose proof (canon_alts_alts g before) as E.
  destruct g as [|a [|a2 g']]; [reflexivity|reflexivity|].
  change (canon_alts before (a :: a2 :: g')) with (mkRalt before (canonical_layout a) a [32] :: canon_alts [32] (a2 :: g')) in *.
  destruct (canon_alts [32] (a2 :: g')) as [|r rs] eqn:Ec; [destruct g'; discriminate|].
  f_equal. rewrite <- E. rewrite map_map. reflexivity.
Qed.

Lemma rel_str_alts g : g <> [] -> rel_str (tree_alts g) = canon_text g.
Proof.
  intros Hne. unfold tree_alts, canon_text. destruct g as [|a [|a2 g']]; [contradiction| |].
  - cbn [map join]. apply str_is_canonical.
  - cbn [rel_str]. f_equal. rewrite map_map. apply map_ext. intros x. apply str_is_canonical.
Qed.

(* ", " between groups: a blank before every group but the first *)
Definition canon_field (gs : list (list alt)) : list (list ralt) :=
  match gs with
  | [] => []
  | g :: rest => canon_alts [] g :: map (canon_alts [32]) rest
  end.

Theorem field_str_roundtrip gs : Forall (fun g => g <> [] /\ Forall wf_alt g) gs ->
  parse_depends (rel_str (AndRel (map tree_alts gs))) = Ok (AndRel (map tree_alts gs)).
Proof.
  intros Hg. destruct gs as [|g0 gs']; [reflexivity|].
  assert (Estr : rel_str (AndRel (map tree_alts (g0 :: gs'))) = render_field (canon_field (g0 :: gs'))).
  { cbn [rel_str]. rewrite map_map. unfold render_field, canon_field.
    rewrite (map_ext_Forall _ canon_text) by (eapply Forall_impl; [|exact Hg]; intros g [Hne _]; now apply rel_str_alts).
    inversion Hg as [|? ? [Hne0 _] Hrest]; subst. cbn [map].
    change (lit ", ") with (44 :: [32]). rewrite join_pad_gen. f_equal. f_equal.
    - now rewrite render_canon_alts.
    - rewrite !map_map. apply map_ext_Forall. eapply Forall_impl; [|exact Hrest]. intros g [Hne _]. now rewrite render_canon_alts. }
  rewrite Estr. rewrite parse_field.
  - f_equal. f_equal. unfold canon_field. cbn [map]. rewrite tree_group_canon. f_equal. rewrite map_map. apply map_ext. intros g. apply tree_group_canon.
  - unfold wf_field, canon_field. inversion Hg as [|? ? [Hne0 Hw0] Hrest]; subst. constructor.
    + split; [destruct g0 as [|a [|a2 g']]; [contradiction|discriminate|discriminate]|apply canon_alts_wf; [constructor|exact Hw0]].
    + rewrite Forall_map. eapply Forall_impl; [|exact Hrest]. intros g [Hne Hw]. split; [destruct g as [|a [|a2 g']]; [contradiction|discriminate|discriminate]|].
      apply canon_alts_wf; [repeat constructor|exact Hw].
Qed.

(* ---------- a version clause with more than one operator raises ValueError ---------- *)

Lemma split_ops_to_op pre c rest : no_op pre -> is_op_char c = true -> forall cur,
  split_on_ops_aux cur [] false (pre ++ c :: rest) = (rev cur ++ pre) :: split_on_ops_aux [] [c] true rest.
Proof.
  intros Hp Hc. induction Hp as [|x pre Hx _ IH]; intros cur; cbn [app split_on_ops_aux].
  - rewrite Hc. now rewrite app_nil_r.
  - rewrite Hx. rewrite IH. cbn [rev]. now rewrite <- app_assoc.
Qed.

Lemma split_ops_from_op o d rest : all_op o -> is_op_char d = false -> forall ops,
  split_on_ops_aux [] ops true (o ++ d :: rest) = (rev ops ++ o) :: split_on_ops_aux [d] [] false rest.
Proof.
  intros Ho Hd. induction Ho as [|c o Hc _ IH]; intros ops; cbn [app split_on_ops_aux].
  - rewrite Hd. now rewrite app_nil_r.
  - rewrite Hc. rewrite IH. cbn [rev]. now rewrite <- app_assoc.
Qed.

Lemma nbs5 (a b c d e : str) : all_space a = true -> all_space b = false -> all_space c = false -> all_space d = false ->
  all_space e = false -> nonblank_stripped [a; b; c; d; e] = [strip b; strip c; strip d; strip e].
Proof. intros Ha Hb Hc Hd He. unfold nonblank_stripped. cbn [filter]. rewrite Ha, Hb, Hc, Hd, He. reflexivity. Qed.

Theorem bad_clause_two_operators n o1 x1 o2 x2 : wf_name n -> wf_op o1 -> wf_version x1 -> wf_op o2 -> wf_version x2 ->
  parse_relationship (n ++ lit " (" ++ (o1 ++ [32] ++ x1 ++ [32] ++ o2 ++ [32] ++ x2) ++ [41]) = Raise ValueError.
Proof.
  intros Hn Ho1 Hx1 Ho2 Hx2. unfold parse_relationship, rel_expr_match.
  pose proof (name_char_facts _ Hn) as Hnc. destruct (token_facts _ _ Hn) as (Nne & _ & _).
  destruct (wf_op_facts o1 Ho1) as (O1ne & O1all & O1ns & O141). destruct (wf_op_facts o2 Ho2) as (O2ne & O2all & O2ns & O241).
  destruct (token_facts _ _ Hx1) as (X1ne & X1ns & _). destruct (version_no_op x1 Hx1) as [X1no X141].
  destruct (token_facts _ _ Hx2) as (X2ne & X2ns & _). destruct (version_no_op x2 Hx2) as [X2no X241].
  set (g := o1 ++ [32] ++ x1 ++ [32] ++ o2 ++ [32] ++ x2).
  destruct (take_drop_app name_char n (lit " (" ++ g ++ [41]) Hnc) as [Et Ed]; [reflexivity|].
  rewrite Et, Ed. destruct n as [|c0 n0] eqn:En; [contradiction|]. rewrite <- En in *.
  change (lit " (" ++ g ++ [41]) with ([32] ++ 40 :: g ++ 41 :: []).
  assert (Hg41 : ~ In 41 g).
  { subst g. repeat (apply no_char_app; try assumption); intros [E|[]]; discriminate. }
  assert (Hgne : g <> []) by (subst g; destruct o1; [contradiction|discriminate]).
  rewrite drop_ws by (repeat constructor). rewrite bracket_group_ok; [|discriminate|exact Hgne|exact Hg41].
  cbn [drop_while bracket_group].
  (* the tokens *)
  assert (Etok : nonblank_stripped (split_on_ops g) = [o1; x1; o2; x2]).
  { unfold split_on_ops. subst g. destruct o1 as [|c1 o1']; [contradiction|]. inversion O1all as [|? ? Hc1 Ho1']; subst.
    change ((c1 :: o1') ++ [32] ++ x1 ++ [32] ++ o2 ++ [32] ++ x2) with ([] ++ c1 :: (o1' ++ 32 :: (x1 ++ [32] ++ o2 ++ [32] ++ x2))).
    rewrite (split_ops_to_op [] c1 _ (Forall_nil _) Hc1 []). rewrite (split_ops_from_op o1' 32 _ Ho1' eq_refl [c1]).
    destruct o2 as [|c2 o2']; [contradiction|]. inversion O2all as [|? ? Hc2 Ho2']; subst.
    replace (x1 ++ [32] ++ (c2 :: o2') ++ [32] ++ x2) with ((x1 ++ [32]) ++ c2 :: (o2' ++ [32] ++ x2)) by (now rewrite <- app_assoc).
    assert (Hmid : no_op (x1 ++ [32])) by (apply no_op_app; [exact X1no|repeat constructor]).
    rewrite (split_ops_to_op (x1 ++ [32]) c2 _ Hmid Hc2 [32]).
    rewrite (split_ops_op o2' Ho2' [c2] ([32] ++ x2)); [|apply no_op_app; [repeat constructor|exact X2no]|discriminate].
    cbn [rev app].
    assert (B1 : all_space (c1 :: o1') = false) by (apply not_all_space_nospace; [exact O1ns|discriminate]).
    assert (B2 : all_space ([32] ++ x1 ++ [32]) = false) by now apply all_space_app_false.
    assert (B3 : all_space (c2 :: o2') = false) by (apply not_all_space_nospace; [exact O2ns|discriminate]).
    assert (B4 : all_space ([32] ++ x2) = false).
    { replace ([32] ++ x2) with ([32] ++ x2 ++ []) by now rewrite app_nil_r. now apply all_space_app_false. }
    etransitivity; [apply (nbs5 [] (c1 :: o1') ([32] ++ x1 ++ [32]) (c2 :: o2') ([32] ++ x2) eq_refl B1 B2 B3 B4)|].
    f_equal; [now apply nospace_strip|]. f_equal.
    - destruct (nospace_ends x1 X1ns X1ne) as [Hh Hl]. apply strip_pad; try assumption; repeat constructor.
    - f_equal; [now apply nospace_strip|]. f_equal. replace ([32] ++ x2) with ([32] ++ x2 ++ []) by now rewrite app_nil_r.
      destruct (nospace_ends x2 X2ns X2ne) as [Hh Hl]. apply strip_pad; try assumption; repeat constructor. }
  rewrite Etok. reflexivity.
Qed.
