(* The model of list.sort (initial run + binary insertion) returns a permutation
   that is non-decreasing in every class function the comparison is compatible
   with - even when "<" itself is not a strict weak order. *)
From Coq Require Import Arith NArith List Bool Lia Sorted Permutation.
From DI Require Import Result PyStr Package OrderFacts.
Import ListNotations.

Section SortSpec.
  Context {A K : Type} (lt : A -> A -> result bool) (key : A -> K) (cmpK : K -> K -> comparison).
  Hypothesis HK : CmpOK cmpK.
  (* whenever lt answers, it agrees with the class order where that order is strict *)
  (* the elements the comparison is known to behave on *)
  Variable P : A -> Prop.
  Hypothesis compat : forall x y b, P x -> P y -> lt x y = Ok b ->
    (cmpK (key x) (key y) = Lt -> b = true) /\ (cmpK (key x) (key y) = Gt -> b = false).

  Definition le (x y : A) : Prop := cmpK (key x) (key y) <> Gt.

  Lemma le_trans x y z : le x y -> le y z -> le x z.
  Proof. unfold le. apply (cmp_le_trans HK). Qed.

  Lemma lt_true_le x y : P x -> P y -> lt x y = Ok true -> le x y.
  Proof. intros Px Py H Hgt. destruct (compat x y true Px Py H) as [_ H2]. specialize (H2 Hgt). discriminate. Qed.

  Lemma lt_false_le x y : P x -> P y -> lt x y = Ok false -> le y x.
  Proof.
    intros Px Py H Hgt. apply (cmp_gt_lt HK) in Hgt. destruct (compat x y false Px Py H) as [H1 _].
    specialize (H1 Hgt). discriminate.
  Qed.

  Definition sortedK (l : list A) : Prop := StronglySorted le l.

  Lemma sortedK_app a b : sortedK (a ++ b) <-> sortedK a /\ sortedK b /\ (forall x y, In x a -> In y b -> le x y).
  Proof.
    unfold sortedK. induction a as [|x a IH]; cbn [app].
    - split; [intros H; repeat split; [constructor|exact H|intros ? ? []]|now intros (_ & H & _)].
    - split.
      + intros H. inversion H as [|? ? Hs Hf]; subst. apply IH in Hs as (Ha & Hb & Hc).
        rewrite Forall_app in Hf. destruct Hf as [Hfa Hfb]. repeat split.
        * now constructor.
        * exact Hb.
        * intros u v [<-|Hu] Hv; [rewrite Forall_forall in Hfb; now apply Hfb|now apply Hc].
      + intros (Ha & Hb & Hc). inversion Ha as [|? ? Hs Hf]; subst. constructor.
        * apply IH. repeat split; [exact Hs|exact Hb|]. intros u v Hu Hv. apply Hc; [now right|exact Hv].
        * apply Forall_app. split; [exact Hf|]. apply Forall_forall. intros v Hv. apply Hc; [now left|exact Hv].
  Qed.

  Lemma firstn_skipn_In (s : list A) i x : In x s -> In x (firstn i s) \/ In x (skipn i s).
  Proof. intros H. rewrite <- (firstn_skipn i s) in H. now apply in_app_or. Qed.

  (* inserting x at a position with smaller-or-equal classes before and larger-or-equal after *)
  Lemma insert_sorted s i x :
    sortedK s -> Forall (fun y => le y x) (firstn i s) -> Forall (le x) (skipn i s) ->
    sortedK (insert_at s i x).
  Proof.
    intros Hs Hb Ha. unfold insert_at. rewrite <- (firstn_skipn i s) in Hs.
    apply sortedK_app in Hs as (H1 & H2 & H3). apply sortedK_app. repeat split.
    - exact H1.
    - constructor; [exact H2|exact Ha].
    - intros u v Hu [<-|Hv]; [rewrite Forall_forall in Hb; now apply Hb|now apply H3].
  Qed.

  Lemma sorted_before s p ap : sortedK s -> nth_error s p = Some ap ->
    Forall (fun y => le y ap) (firstn p s) /\ Forall (le ap) (skipn (S p) s).
  Proof.
    intros Hs Hn. apply nth_error_split in Hn as (l1 & l2 & -> & <-).
    rewrite firstn_app, firstn_all, Nat.sub_diag. cbn [firstn]. rewrite app_nil_r.
    replace (skipn (S (length l1)) (l1 ++ ap :: l2)) with l2.
    2:{ rewrite skipn_app. rewrite skipn_all2 by lia. replace (S (length l1) - length l1)%nat with 1%nat by lia. reflexivity. }
    apply sortedK_app in Hs as (_ & H2 & H3). split.
    - apply Forall_forall. intros y Hy. apply H3; [exact Hy|now left].
    - inversion H2; subst. assumption.
  Qed.

  Lemma bsearch_spec fuel : forall s x l r i,
    Forall P s -> P x ->
    sortedK s -> (l <= r <= length s)%nat -> (r - l < fuel)%nat ->
    Forall (fun y => le y x) (firstn l s) -> Forall (le x) (skipn r s) ->
    bsearch lt fuel s x l r = Ok i ->
    (i <= length s)%nat /\ Forall (fun y => le y x) (firstn i s) /\ Forall (le x) (skipn i s).
  Proof.
    induction fuel as [|f IH]; intros s x l r i HPs HPx Hs Hlr Hf Hb Ha H; [lia|].
    cbn [bsearch] in H. destruct (Nat.ltb_spec l r) as [Hlt|Hge].
    - set (p := (l + Nat.div2 (r - l))%nat) in *.
      assert (Hp : (l <= p < r)%nat).
      { subst p. pose proof (Nat.lt_div2 (r - l)) as Hd. assert (0 < r - l)%nat by lia. specialize (Hd H0). lia. }
      destruct (nth_error s p) as [ap|] eqn:En.
      2:{ apply nth_error_None in En. lia. }
      destruct (lt x ap) as [b|e] eqn:Elt; [|discriminate]. cbn [bind] in H.
      assert (HPap : P ap) by (rewrite Forall_forall in HPs; apply HPs; eapply nth_error_In; exact En).
      destruct (sorted_before s p ap Hs En) as [Hbefore Hafter].
      destruct b.
      + (* x < ap: everything from p on is not smaller *)
        apply (IH s x l p i HPs HPx Hs); try lia; try assumption.
        pose proof (lt_true_le x ap HPx HPap Elt) as Hxa.
        apply nth_error_split in En as (l1 & l2 & Es & El). subst s.
        replace (skipn p (l1 ++ ap :: l2)) with (ap :: l2).
        2:{ rewrite skipn_app, skipn_all2 by lia. rewrite El, Nat.sub_diag. reflexivity. }
        constructor; [exact Hxa|].
        replace (skipn (S p) (l1 ++ ap :: l2)) with l2 in Hafter.
        2:{ rewrite skipn_app, skipn_all2 by lia. replace (S p - length l1)%nat with 1%nat by lia. reflexivity. }
        eapply Forall_impl; [|exact Hafter]. intros y Hy. now apply (le_trans x ap y).
      + (* not x < ap: everything up to p is not larger *)
        apply (IH s x (S p) r i HPs HPx Hs); try lia; try assumption.
        pose proof (lt_false_le x ap HPx HPap Elt) as Hax.
        apply nth_error_split in En as (l1 & l2 & Es & El). subst s.
        replace (firstn (S p) (l1 ++ ap :: l2)) with (l1 ++ [ap]).
        2:{ rewrite firstn_app. rewrite firstn_all2 by lia. replace (S p - length l1)%nat with 1%nat by lia. reflexivity. }
        apply Forall_app. split; [|constructor; [exact Hax|constructor]].
        replace (firstn p (l1 ++ ap :: l2)) with l1 in Hbefore.
        2:{ rewrite firstn_app, firstn_all2 by lia. rewrite El, Nat.sub_diag. cbn. now rewrite app_nil_r. }
        eapply Forall_impl; [|exact Hbefore]. intros y Hy. now apply (le_trans y ap x).
    - inversion H; subst i. assert (l = r) by lia. subst r. repeat split; try lia; assumption.
  Qed.

  Lemma insert_at_perm (s : list A) i x : Permutation (x :: s) (insert_at s i x).
  Proof.
    unfold insert_at. rewrite <- (firstn_skipn i s) at 1. apply Permutation_middle.
  Qed.

  Lemma binarysort_spec rest : forall s r,
    Forall P s -> Forall P rest ->
    sortedK s -> binarysort lt s rest = Ok r -> sortedK r /\ Permutation (s ++ rest) r.
  Proof.
    induction rest as [|x rest IH]; intros s r HPs HPr Hs H.
    - cbn in H. inversion H; subst. rewrite app_nil_r. split; [exact Hs|apply Permutation_refl].
    - cbn [binarysort] in H. destruct (bsearch lt (S (length s)) s x 0 (length s)) as [i|e] eqn:Eb; [|discriminate].
      cbn [bind] in H. inversion HPr as [|? ? HPx HPr']; subst.
      destruct (bsearch_spec (S (length s)) s x 0 (length s) i HPs HPx Hs) as (Hi & Hb & Ha); try lia; try exact Eb.
      { constructor. }
      { rewrite skipn_all. constructor. }
      assert (HPi : Forall P (insert_at s i x)).
      { apply Forall_forall. intros y Hy. apply (Permutation_in _ (Permutation_sym (insert_at_perm s i x))) in Hy.
        destruct Hy as [<-|Hy]; [exact HPx|]. rewrite Forall_forall in HPs. now apply HPs. }
      destruct (IH _ _ HPi HPr' (insert_sorted s i x Hs Hb Ha) H) as [Hr Hp]. split; [exact Hr|].
      eapply Permutation_trans; [|exact Hp].
      eapply Permutation_trans; [apply Permutation_sym, Permutation_middle|].
      change (x :: s ++ rest) with ((x :: s) ++ rest). apply Permutation_app_tail. apply insert_at_perm.
  Qed.

  Lemma asc_run_spec l : forall prev run rest,
    P prev -> Forall P l ->
    asc_run lt prev l = Ok (run, rest) -> l = run ++ rest /\ Sorted le (prev :: run).
  Proof.
    induction l as [|x l IH]; intros prev run rest HPp HPl H.
    - cbn in H. inversion H; subst. split; [reflexivity|repeat constructor].
    - cbn [asc_run] in H. destruct (lt x prev) as [b|e] eqn:E; [|discriminate]. cbn [bind] in H.
      inversion HPl as [|? ? HPx HPl']; subst.
      destruct b.
      + inversion H; subst. split; [reflexivity|repeat constructor].
      + destruct (asc_run lt x l) as [[run' rest']|e] eqn:Er; [|discriminate]. cbn [bind fst snd] in H.
        inversion H; subst. destruct (IH _ _ _ HPx HPl' Er) as [-> Hs]. split; [reflexivity|].
        constructor; [exact Hs|]. constructor. now apply lt_false_le.
  Qed.

  Lemma desc_run_spec l : forall prev run rest,
    P prev -> Forall P l ->
    desc_run lt prev l = Ok (run, rest) -> l = run ++ rest /\ Sorted (fun a b => le b a) (prev :: run).
  Proof.
    induction l as [|x l IH]; intros prev run rest HPp HPl H.
    - cbn in H. inversion H; subst. split; [reflexivity|repeat constructor].
    - cbn [desc_run] in H. destruct (lt x prev) as [b|e] eqn:E; [|discriminate]. cbn [bind] in H.
      inversion HPl as [|? ? HPx HPl']; subst.
      destruct b.
      + destruct (desc_run lt x l) as [[run' rest']|e] eqn:Er; [|discriminate]. cbn [bind fst snd] in H.
        inversion H; subst. destruct (IH _ _ _ HPx HPl' Er) as [-> Hs]. split; [reflexivity|].
        constructor; [exact Hs|]. constructor. now apply lt_true_le.
      + inversion H; subst. split; [reflexivity|repeat constructor].
  Qed.

  Lemma Sorted_sortedK l : Sorted le l -> sortedK l.
  Proof. apply Sorted_StronglySorted. intros x y z. apply le_trans. Qed.

  Lemma StronglySorted_rev (R : A -> A -> Prop) l :
    StronglySorted (fun a b => R b a) l -> StronglySorted R (rev l).
  Proof.
    induction 1 as [|x l Hs IH Hf]; [constructor|]. cbn [rev].
    assert (G : forall a b, StronglySorted R a -> StronglySorted R b ->
                (forall u v, In u a -> In v b -> R u v) -> StronglySorted R (a ++ b)).
    { induction a as [|u a IHa]; intros b Ha Hb Hc; [exact Hb|]. cbn [app].
      inversion Ha; subst. constructor.
      - apply IHa; [assumption|assumption|]. intros p q Hp Hq. apply Hc; [now right|exact Hq].
      - apply Forall_app. split; [assumption|]. apply Forall_forall. intros v Hv. apply Hc; [now left|exact Hv]. }
    apply G; [exact IH|repeat constructor|].
    intros u v Hu [<-|[]]. rewrite Forall_forall in Hf. apply Hf. now apply in_rev.
  Qed.

  (* the sort returns a permutation, non-decreasing in the class order *)
  Theorem py_sort_spec l r : Forall P l -> py_sort lt l = Ok r -> sortedK r /\ Permutation l r.
  Proof.
    intros HPl. destruct l as [|x [|y l]]; cbn [py_sort]; intros H.
    - inversion H; subst. split; [constructor|constructor].
    - inversion H; subst. split; [repeat constructor|apply Permutation_refl].
    - inversion HPl as [|? ? HPx HPl1]; subst. inversion HPl1 as [|? ? HPy HPl2]; subst.
      destruct (lt y x) as [b|e] eqn:E; [|discriminate]. cbn [bind] in H. destruct b.
      + destruct (desc_run lt y l) as [[run rest]|e] eqn:Er; [|discriminate]. cbn [bind fst snd] in H.
        destruct (desc_run_spec _ _ _ _ HPy HPl2 Er) as [-> Hs]. apply Forall_app in HPl2 as [HPrun HPrest].
        assert (Hrun : sortedK (rev (x :: y :: run))).
        { apply StronglySorted_rev. apply Sorted_StronglySorted.
          - intros a b c Hab Hbc. exact (le_trans c b a Hbc Hab).
          - constructor; [exact Hs|]. constructor. now apply lt_true_le. }
        assert (HPrev : Forall P (rev (x :: y :: run))) by (apply Forall_rev; repeat constructor; assumption).
        destruct (binarysort_spec rest _ _ HPrev HPrest Hrun H) as [Hr Hp]. split; [exact Hr|].
        eapply Permutation_trans; [|exact Hp].
        change (x :: y :: run ++ rest) with ((x :: y :: run) ++ rest). apply Permutation_app_tail, Permutation_rev.
      + destruct (asc_run lt y l) as [[run rest]|e] eqn:Er; [|discriminate]. cbn [bind fst snd] in H.
        destruct (asc_run_spec _ _ _ _ HPy HPl2 Er) as [-> Hs]. apply Forall_app in HPl2 as [HPrun HPrest].
        assert (Hrun : sortedK (x :: y :: run)).
        { apply Sorted_sortedK. constructor; [exact Hs|]. constructor. now apply lt_false_le. }
        assert (HPfirst : Forall P (x :: y :: run)) by (repeat constructor; assumption).
        destruct (binarysort_spec rest _ _ HPfirst HPrest Hrun H) as [Hr Hp]. split; [exact Hr|]. exact Hp.
  Qed.

  (* the last element of the result is a maximum of the input *)
  Corollary py_sort_last_max l r d : Forall P l -> py_sort lt l = Ok r -> l <> [] ->
    In (last r d) l /\ forall q, In q l -> le q (last r d).
  Proof.
    intros HPl H Hne. destruct (py_sort_spec l r HPl H) as [Hs Hp].
    assert (Hr : r <> []).
    { intros ->. apply Permutation_sym, Permutation_nil in Hp. contradiction. }
    destruct (exists_last Hr) as (r' & m & ->). rewrite last_last. split.
    - eapply Permutation_in; [apply Permutation_sym; exact Hp|]. apply in_or_app. right. now left.
    - intros q Hq. apply (Permutation_in _ Hp) in Hq. apply sortedK_app in Hs as (_ & _ & Hc).
      apply in_app_or in Hq as [Hq|[<-|[]]].
      + apply Hc; [exact Hq|now left].
      + unfold le. rewrite (cmp_refl HK). discriminate.
  Qed.
End SortSpec.
