(* Proofs for C13: the rendering of a copyright object parses back to an object with the same
   types and the same dictionary form, given that its values are renderable (each value is a
   trimmed non-empty first line followed by continuation lines) and stable under
   parse-after-render. *)
From Coq Require Import String.
From Coq Require Import Arith NArith List Bool Lia.
From DI Require Import Result PyStr PyStrFacts Codec CodecFacts Deb822 Deb822Facts BlankFacts Debcon DebconFacts Copyright CopyrightFacts
  Grammar822 Grammar822Facts Grammar822Header DepsFieldFacts ReadbackFacts Dep5Facts WordFacts ConserveFacts RenderFacts FromDictFacts.
Import ListNotations.
Open Scope N_scope.

(* ---------- a value as lines ---------- *)

Definition vlines (v : str) : list str := split_char 10 v.
Definition vfirst (v : str) : str := hd [] (vlines v).
Definition vconts (v : str) : list str := tl (vlines v).

Lemma vlines_join v : join [10] (vfirst v :: vconts v) = v.
Proof.
  unfold vfirst, vconts, vlines. pose proof (join_split_char 10 v) as E.
  destruct (split_char 10 v) as [|l ls] eqn:Es; [exfalso; exact (split_char_nonempty 10 v Es)|]. exact E.
Qed.

(* renderable: trimmed non-empty first line, no carriage return, every later line an indented
   non-blank line without trailing blanks *)
Definition renderable (v : str) : Prop :=
  vfirst v <> [] /\ strip (vfirst v) = vfirst v /\ ~ In 13 v /\
  Forall (fun c => is_cont c = true /\ rstrip c = c) (vconts v).

Definition rname (k : str) : str := normalize_control_field_name (replace_char 95 45 k).
Definition gf_of (kv : str * str) : gfield := mkGField (rname (fst kv)) [32] (vfirst (snd kv)) (vconts (snd kv)).

Lemma vline_no_eol v l : ~ In 13 v -> In l (vlines v) -> no_eol l.
Proof.
  intros H13 Hl. unfold no_eol. apply Forall_forall. intros c Hc. unfold is_lf_cr.
  pose proof (split_char_nosep 10 v) as Hn. rewrite Forall_forall in Hn. specialize (Hn l Hl).
  destruct (N.eqb_spec c 10) as [E10|]; [subst c; exfalso; now apply Hn|]. destruct (N.eqb_spec c 13) as [E13|]; [subst c|reflexivity].
  exfalso. apply H13. rewrite <- (join_split_char 10 v). fold (vlines v). clear -Hl Hc. induction (vlines v) as [|x xs IH]; [contradiction|].
  destruct xs as [|y ys].
  - destruct Hl as [->|[]]. exact Hc.
  - rewrite join_cons. destruct Hl as [->|Hl]; [apply in_or_app; now left|]. apply in_or_app. right. apply in_or_app. right. now apply IH.
Qed.

Lemma gf_wf kv : name_ok (rname (fst kv)) -> renderable (snd kv) -> wf_gfield (gf_of kv).
Proof.
  intros Hn (Hne & Hs & H13 & Hc). unfold wf_gfield, gf_of. cbn [gf_name gf_gap gf_first gf_conts].
  assert (Hin : forall l, In l (vfirst (snd kv) :: vconts (snd kv)) -> In l (vlines (snd kv))).
  { unfold vfirst, vconts. intros l Hl. destruct (vlines (snd kv)) eqn:Ev; [exfalso; exact (split_char_nonempty 10 (snd kv) Ev)|exact Hl]. }
  split; [exact Hn|]. split; [repeat constructor|]. split; [exact Hs|]. split; [apply (vline_no_eol (snd kv)); [exact H13|apply Hin; now left]|].
  split; [|now left]. rewrite Forall_forall in *. intros c Hcin. destruct (Hc c Hcin) as [H1 H2]. split; [exact H1|]. split; [exact H2|].
  apply (vline_no_eol (snd kv)); [exact H13|apply Hin; now right].
Qed.

Lemma field_src_join kv : join [10] (field_src (gf_of kv)) = rname (fst kv) ++ [58; 32] ++ snd kv.
Proof.
  unfold field_src, gf_of, decl_text. cbn [gf_name gf_gap gf_first gf_conts].
  transitivity (join [10] (((rname (fst kv) ++ [58; 32]) ++ vfirst (snd kv)) :: vconts (snd kv))).
  { f_equal. f_equal. now rewrite <- app_assoc. }
  etransitivity; [apply join_head|]. rewrite vlines_join. now rewrite <- app_assoc.
Qed.

Lemma renderable_head v : renderable v -> exists c r, v = c :: r /\ is_space c = false.
Proof.
  intros (Hne & Hs & _). rewrite <- (vlines_join v). destruct (vfirst v) as [|c f] eqn:E; [contradiction|].
  assert (Hc : is_space c = false) by (unfold strip in Hs; now apply strip_by_head in Hs).
  destruct (vconts v) as [|c1 cs]; [exists c, f; split; [reflexivity|exact Hc]|]. rewrite join_cons. exists c, (f ++ [10] ++ join [10] (c1 :: cs)). split; [reflexivity|exact Hc].
Qed.

Lemma renderable_lstrip v : renderable v -> lstrip v = v /\ all_space v = false /\ (match v with 32 :: v' => v' | _ => v end) = v.
Proof.
  intros H. destruct (renderable_head v H) as (c & r & -> & Hc). unfold lstrip, lstrip_by. cbn [drop_while]. rewrite Hc.
  split; [reflexivity|]. split; [unfold all_space; cbn [forallb]; now rewrite Hc|].
  destruct (N.eqb_spec c 32) as [->|Hn]; [discriminate|]. destruct c as [|p]; [reflexivity|]. repeat (destruct p as [p|p|]; try reflexivity). contradiction.
Qed.

(* ---------- joins of joins, solid paragraphs ---------- *)

Lemma join_app_ne c (a b : list str) : a <> [] -> b <> [] -> join [c] (a ++ b) = join [c] a ++ [c] ++ join [c] b.
Proof.
  intros Ha Hb. induction a as [|x a IH]; [contradiction|]. destruct a as [|y a'].
  - change ([x] ++ b) with (x :: b). rewrite join_cons_ne by exact Hb. reflexivity.
  - change ((x :: y :: a') ++ b) with (x :: ((y :: a') ++ b)). rewrite join_cons_ne by (destruct b; [contradiction|discriminate]).
    rewrite IH by discriminate. rewrite join_cons. now rewrite <- !app_assoc.
Qed.

Lemma join_concat c (Ls : list (list str)) : Forall (fun L => L <> []) Ls -> join [c] (map (join [c]) Ls) = join [c] (concat Ls).
Proof.
  induction 1 as [|L Ls HL Hrest IH]; [reflexivity|]. cbn [map concat]. destruct Ls as [|L2 Ls'].
  - cbn [map join concat]. now rewrite app_nil_r.
  - rewrite join_cons_ne by discriminate. rewrite IH. rewrite join_app_ne; [reflexivity|exact HL|].
    inversion Hrest as [|? ? H2 _]; subst. cbn [concat]. destruct L2; [contradiction|discriminate].
Qed.

Definition ends_nonspace (l : str) : Prop := exists a x, l = a ++ [x] /\ is_space x = false.

Lemma rstrip_fixed_ends l : rstrip l = l -> l <> [] -> ends_nonspace l.
Proof.
  intros H Hne. unfold rstrip in H. destruct (rstrip_by_last is_space l) as [E|(a & c & E & Hc)]; [rewrite H in E; contradiction|].
  rewrite H in E. now exists a, c.
Qed.

Lemma field_last_ends f : wf_gfield f -> ends_nonspace (last (field_src f) []).
Proof.
  intros (Hn & _ & Hs & _ & Hc & Hne). unfold field_src. destruct (gf_conts f) as [|c0 cs] eqn:Ec.
  - cbn [last]. destruct Hne as [Hne|Hne]; [|contradiction]. unfold decl_text.
    destruct (rstrip_fixed_ends (gf_first f) (strip_fixed_rstrip _ Hs) Hne) as (a & x & E & Hx). rewrite E. exists (gf_name f ++ [58] ++ gf_gap f ++ a), x.
    split; [now rewrite <- !app_assoc|exact Hx].
  - destruct (exists_last (l := c0 :: cs)) as (pre & z & E); [discriminate|]. rewrite E in *.
    change (decl_text f :: pre ++ [z]) with ((decl_text f :: pre) ++ [z]). rewrite last_last.
    apply Forall_app in Hc as [_ Hz]. inversion Hz as [|? ? (Hz1 & Hz2 & _) _]; subst. apply rstrip_fixed_ends; [exact Hz2|now apply cont_nonempty].
Qed.

Lemma para_solid p : p <> [] -> Forall wf_gfield p ->
  strip (join [10] (flat_map field_src p)) = join [10] (flat_map field_src p) /\ join [10] (flat_map field_src p) <> [].
Proof.
  intros Hne Hf. destruct p as [|f p']; [contradiction|]. inversion Hf as [|? ? Hwf _]; subst.
  set (Ls := flat_map field_src (f :: p')).
  assert (Hhead : exists c r, join [10] Ls = c :: r /\ is_space c = false).
  { subst Ls. cbn [flat_map field_src app]. destruct Hwf as (Hn & _). unfold decl_text. destruct (gf_name f) as [|c n] eqn:En; [contradiction|].
    destruct Hn as [Hc _]. destruct (gf_conts f ++ flat_map field_src p') as [|l2 rest].
    - cbn [join app]. exists c, (n ++ [58] ++ gf_gap f ++ gf_first f). split; [reflexivity|now apply alpha_nospace].
    - rewrite join_cons. cbn [app]. eexists c, _. split; [reflexivity|now apply alpha_nospace]. }
  assert (Hlast : ends_nonspace (last Ls [])).
  { subst Ls. destruct (exists_last (l := f :: p')) as (pre & fz & E); [discriminate|]. rewrite E in *. rewrite flat_map_app. cbn [flat_map]. rewrite app_nil_r.
    rewrite last_app_r by (unfold field_src; discriminate). apply field_last_ends. apply Forall_app in Hf as [_ Hz]. now inversion Hz. }
  destruct Hhead as (c & r & Ec & Hc). destruct Hlast as (a & x & Ea & Hx).
  assert (HLs : Ls <> []) by (subst Ls; cbn [flat_map field_src app]; discriminate).
  destruct (join_last_char [10] Ls a x HLs Ea) as (a' & Ej). split; [|rewrite Ec; discriminate].
  unfold strip. apply strip_by_fixed; [rewrite Ec; exact Hc|]. rewrite Ej. now apply rstrip_by_snoc_keep.
Qed.

(* ---------- the text of a document whose paragraphs are separated by one empty line ---------- *)

Fixpoint seps1 (Gs : list gpara) : list (gpara * nat) :=
  match Gs with
  | [] => []
  | [g] => [(g, 0%nat)]
  | g :: rest => (g, 1%nat) :: seps1 rest
  end.

Lemma doc_text_blocks Gs : Gs <> [] -> Forall (fun g => g <> []) Gs ->
  doc_text (seps1 Gs) = join [10; 10] (map (fun g => join [10] (flat_map field_src g)) Gs) ++ [10].
Proof.
  intros Hne Hg. induction Gs as [|g Gs IH]; [contradiction|]. inversion Hg as [|? ? Hgne Hrest]; subst.
  assert (Hsrc : flat_map field_src g <> []) by (destruct g; [contradiction|discriminate]).
  destruct Gs as [|g2 Gs'].
  - cbn [seps1 map join]. unfold doc_text. cbn [doc_src repeat app]. rewrite !app_nil_r. fold (lf_lines (flat_map field_src g)).
    now rewrite lf_lines_join.
  - change (seps1 (g :: g2 :: Gs')) with ((g, 1%nat) :: seps1 (g2 :: Gs')). cbn [map]. rewrite join_cons_ne by discriminate.
    unfold doc_text in *. cbn [doc_src repeat]. fold (lf_lines (flat_map field_src g ++ [[]] ++ doc_src (seps1 (g2 :: Gs')))).
    rewrite !lf_lines_app. fold (lf_lines (doc_src (seps1 (g2 :: Gs')))) in IH. rewrite IH by (discriminate || exact Hrest).
    rewrite lf_lines_join by exact Hsrc. change (lf_lines [[]]) with [10]. cbn [map]. now rewrite <- !app_assoc.
Qed.

Lemma seps1_wf Gs : Forall (fun g => g <> [] /\ Forall wf_gfield g) Gs -> wf_doc (seps1 Gs).
Proof.
  induction 1 as [|g Gs [Hne Hf] Hrest IH]; [exact I|]. destruct Gs as [|g2 Gs'].
  - cbn [seps1 wf_doc]. repeat split; try assumption. intros C. now contradiction C.
  - change (seps1 (g :: g2 :: Gs')) with ((g, 1%nat) :: seps1 (g2 :: Gs')). cbn [wf_doc]. repeat split; try assumption. intros _. lia.
Qed.

(* ---------- one paragraph: rendering ---------- *)

Definition items (t : ptype) (K E : pydict str) : pydict str := KD t K ++ E.
Definition is_live (kv : str * str) : bool := negb (all_space (snd kv)).
Definition live_items (t : ptype) (K E : pydict str) : pydict str := filter is_live (items t K E).
Definition fname_of (n : str) : str := replace_char 45 95 (expected_name n).

Record para_ok (t : ptype) (K E : pydict str) : Prop := {
  po_extra : extra_keys_ok t E;
  po_extra_live : Forall (fun kv => all_space (snd kv) = false) E;
  po_blank : Forall (fun kv => all_space (snd kv) = true -> snd kv = []) (KD t K);
  po_live : Forall (fun kv => renderable (snd kv) /\ name_ok (rname (fst kv)) /\ fname_of (rname (fst kv)) = fst kv) (live_items t K E);
  po_some : live_items t K E <> [];
  po_stable : Forall (fun kf => RP (snd kf) (RP (snd kf) (lookup (fst kf) K)) = RP (snd kf) (lookup (fst kf) K)) (known_fields t);
}.

Definition rendered (t : ptype) (K E : pydict str) : gpara := map gf_of (live_items t K E).

Lemma base_dumps_items t K E L : extra_keys_ok t E ->
  base_dumps (build_para t K E L) =
  strip (join [10] (flat_map (fun kv : str * str =>
     if all_space (snd kv) then [] else [rname (fst kv) ++ [58; 32] ++ match snd kv with 32 :: v' => v' | _ => snd kv end]) (items t K E))).
Proof.
  intros [Hnd Hk]. unfold base_dumps, build_para. cbn [p_extra].
  assert (E1 : known_to_dict {| p_type := t; p_fields := map (fun kf => (fst kf, convert (snd kf) match dict_get (fst kf) K with Some v => v | None => [] end)) (known_fields t); p_extra := E; p_lines := L |} = KD t K).
  { unfold known_to_dict, KD. cbn [p_fields]. rewrite map_map. reflexivity. }
  rewrite E1. rewrite fold_put_fresh.
  - unfold items. f_equal. f_equal. apply flat_map_ext. intros [k v]. reflexivity.
  - exact Hnd.
  - intros k Hi. destruct (Hk k Hi) as [Hkn _]. unfold KD, keys. rewrite map_map. cbn [fst]. intros Hin. apply known_name_In in Hin. congruence.
Qed.

Lemma flat_map_filter_lines (f : str * str -> str) (l : pydict str) :
  flat_map (fun kv => if all_space (snd kv) then [] else [f kv]) l = map f (filter is_live l).
Proof.
  induction l as [|kv l IH]; [reflexivity|]. cbn [flat_map filter]. unfold is_live at 1. destruct (all_space (snd kv)); cbn [negb app map]; now rewrite IH.
Qed.

Theorem base_dumps_render t K E L : para_ok t K E ->
  base_dumps (build_para t K E L) = join [10] (flat_map field_src (rendered t K E)) /\
  rendered t K E <> [] /\ Forall wf_gfield (rendered t K E).
Proof.
  intros H. rewrite base_dumps_items by apply (po_extra _ _ _ H).
  assert (Hwf : Forall wf_gfield (rendered t K E)).
  { unfold rendered. rewrite Forall_map. eapply Forall_impl; [|apply (po_live _ _ _ H)]. intros kv (Hr & Hn & _). now apply gf_wf. }
  assert (Hne : rendered t K E <> []).
  { unfold rendered. intros E0. apply map_eq_nil in E0. now apply (po_some _ _ _ H). }
  split; [|split; assumption].
  assert (Elines : flat_map (fun kv : str * str => if all_space (snd kv) then [] else [rname (fst kv) ++ [58; 32] ++ match snd kv with 32 :: v' => v' | _ => snd kv end]) (items t K E) =
                   map (fun g => join [10] (field_src g)) (rendered t K E)).
  { rewrite (flat_map_filter_lines (fun kv => rname (fst kv) ++ [58; 32] ++ match snd kv with 32 :: v' => v' | _ => snd kv end)).
    unfold rendered. fold (live_items t K E). rewrite map_map. apply map_ext_Forall. eapply Forall_impl; [|apply (po_live _ _ _ H)].
    intros kv (Hr & _). rewrite field_src_join. destruct (renderable_lstrip _ Hr) as (_ & _ & Em). f_equal. f_equal. exact Em. }
  rewrite Elines. rewrite <- (map_map field_src (join [10])). rewrite join_concat.
  - rewrite <- flat_map_concat_map. apply para_solid; assumption.
  - rewrite Forall_map. apply Forall_forall. intros g _. unfold field_src. discriminate.
Qed.

(* ---------- one paragraph: parsing the rendering back ---------- *)

Definition pair_of (f : field) : str * str := (fname f, fvalue f).

Lemma expected_para_pairs gfs : forall n,
  Forall (fun g => wf_gfield g /\ gf_first g <> []) gfs ->
  map (fun f => (fname f, field_text f)) (expected_para n gfs) =
  map (fun g => (fname_of (gf_name g), join [10] (gf_first g :: gf_conts g))) gfs.
Proof.
  induction gfs as [|g gfs IH]; intros n H; [reflexivity|]. inversion H; subst. cbn [expected_para map]. rewrite IH by assumption. f_equal.
  rewrite expected_field_text. reflexivity.
Qed.

Lemma lookup_KD t K k c : In (k, c) (known_fields t) -> lookup k (KD t K) = RP c (lookup k K).
Proof.
  intros Hin. unfold KD. pose proof (known_names_nodup t) as Hnd. induction (known_fields t) as [|[k0 c0] l IH]; [contradiction|].
  cbn [map fst] in Hnd. inversion Hnd as [|? ? Hni Hnd']; subst. cbn [map fst snd]. unfold lookup at 1. cbn [dict_get].
  destruct Hin as [Heq|Hin].
  - inversion Heq; subst. now rewrite str_eqb_refl.
  - destruct (str_eqb k k0) eqn:E; [apply str_eqb_eq in E; subst; exfalso; apply Hni; now apply (in_map fst) in Hin|]. now apply IH.
Qed.

Lemma lookup_cons k a v (d : pydict str) : lookup k ((a, v) :: d) = if str_eqb k a then v else lookup k d.
Proof. unfold lookup. cbn [dict_get]. now destruct (str_eqb k a). Qed.

Lemma lookup_absent k (d : pydict str) : ~ In k (keys d) -> lookup k d = [].
Proof. intros H. unfold lookup. now rewrite dict_get_absent. Qed.

Lemma keys_filter (P : str * str -> bool) (d : pydict str) k : In k (keys (filter P d)) -> In k (keys d).
Proof. unfold keys. intros H. apply in_map_iff in H as (kv & E & Hin). apply filter_In in Hin as [Hin _]. apply in_map_iff. now exists kv. Qed.

Lemma lookup_filter_live (d : pydict str) k : NoDup (keys d) ->
  Forall (fun kv => all_space (snd kv) = true -> snd kv = []) d ->
  lookup k (filter is_live d) = lookup k d.
Proof.
  intros Hnd Hb. induction d as [|[a v] d IH]; [reflexivity|]. cbn [keys map fst] in Hnd. inversion Hnd as [|? ? Hni Hnd']; subst.
  inversion Hb as [|? ? Hv Hb']; subst. cbn [snd] in Hv. cbn [filter]. unfold is_live at 1. cbn [snd]. rewrite (lookup_cons k a v d).
  destruct (all_space v) eqn:Ev; cbn [negb].
  - rewrite (Hv eq_refl). destruct (str_eqb k a) eqn:E; [|now apply IH]. apply str_eqb_eq in E. subst a.
    apply lookup_absent. intros Hi. apply Hni. now apply keys_filter in Hi.
  - rewrite lookup_cons. destruct (str_eqb k a); [reflexivity|now apply IH].
Qed.

Lemma filter_map_pairs {A} (g : A -> str * str) (P : str -> bool) (l : list A) :
  map g (filter (fun x => P (fst (g x))) l) = filter (fun kv => P (fst kv)) (map g l).
Proof. induction l as [|x l IH]; [reflexivity|]. cbn [filter map]. destruct (P (fst (g x))); cbn [map]; now rewrite IH. Qed.

Lemma filter_all {A} (P : A -> bool) l : Forall (fun x => P x = true) l -> filter P l = l.
Proof. induction 1 as [|x l Hx _ IH]; [reflexivity|]. cbn [filter]. now rewrite Hx, IH. Qed.

Lemma filter_none {A} (P : A -> bool) l : Forall (fun x => P x = false) l -> filter P l = [].
Proof. induction 1 as [|x l Hx _ IH]; [reflexivity|]. cbn [filter]. now rewrite Hx. Qed.

Lemma keys_KD t K : keys (KD t K) = map fst (known_fields t).
Proof. unfold KD, keys. now rewrite map_map. Qed.

Lemma NoDup_app_intro {A} (a b : list A) : NoDup a -> NoDup b -> (forall x, In x a -> In x b -> False) -> NoDup (a ++ b).
Proof.
  induction a as [|x a IH]; intros Ha Hb Hd; [exact Hb|]. inversion Ha as [|? ? Hx Ha']; subst. cbn [app]. constructor.
  - intros Hi. apply in_app_or in Hi as [Hi|Hi]; [contradiction|]. apply (Hd x); [now left|exact Hi].
  - apply IH; [exact Ha'|exact Hb|]. intros y H1 H2. apply (Hd y); [now right|exact H2].
Qed.

Lemma items_nodup t K E : extra_keys_ok t E -> NoDup (keys (items t K E)).
Proof.
  intros [Hnd Hk]. unfold items. rewrite keys_app, keys_KD. apply NoDup_app_intro; [apply known_names_nodup|exact Hnd|].
  intros k H1 H2. apply known_name_In in H1. destruct (Hk k H2) as [H _]. congruence.
Qed.

Definition kroute_kv (t : ptype) (kv : str * str) : bool := kroute t (all_extra t) (fst kv).

Lemma route_is_kroute t f : route t (all_extra t) f = kroute t (all_extra t) (fname f).
Proof. reflexivity. Qed.

(* the paragraph parsed back from a rendering: its typed fields are built from the live values of the
   dictionary form, its extra data is the extra data; and re-converting those values changes nothing *)
Theorem reparse_para_shape t K E n : para_ok t K E ->
  exists L', from_fields t (expected_para n (rendered t K E)) = Ok (build_para t (filter is_live (KD t K)) E L') /\
             KD t (filter is_live (KD t K)) = KD t K.
Proof.
  intros H. set (fs := expected_para n (rendered t K E)). set (LI := live_items t K E).
  destruct (po_extra _ _ _ H) as [HndE HkE].
  assert (Hgf : Forall (fun g => wf_gfield g /\ gf_first g <> []) (rendered t K E)).
  { unfold rendered. rewrite Forall_map. eapply Forall_impl; [|apply (po_live _ _ _ H)]. intros kv (Hr & Hn & _). split; [now apply gf_wf|]. apply Hr. }
  (* names and texts of the parsed fields are the keys and values of the live items *)
  assert (Epairs : map (fun f => (fname f, field_text f)) fs = LI).
  { subst fs. rewrite expected_para_pairs by exact Hgf. unfold rendered. fold LI. rewrite map_map.
    rewrite (map_ext_Forall _ (fun kv => kv)); [apply map_id|]. eapply Forall_impl; [|apply (po_live _ _ _ H)].
    intros [k v] (Hr & _ & Hk). cbn [gf_of gf_name gf_first gf_conts fst snd] in *. rewrite Hk, vlines_join. reflexivity. }
  assert (Elive : live fs = fs).
  { unfold live. apply filter_all. apply Forall_forall. intros f Hf.
    assert (Hin : In (fname f, field_text f) LI) by (rewrite <- Epairs; now apply (in_map (fun f => (fname f, field_text f)))).
    pose proof (po_live _ _ _ H) as HL. rewrite Forall_forall in HL. destruct (HL _ Hin) as (Hr & _). cbn [snd] in Hr.
    destruct (renderable_head _ Hr) as (c & r & E0 & _). rewrite E0. reflexivity. }
  assert (Epairs2 : map pair_of fs = LI).
  { rewrite <- Epairs. apply map_ext_Forall. apply Forall_forall. intros f Hf. unfold pair_of, fvalue. f_equal.
    assert (Hin : In (fname f, field_text f) LI) by (rewrite <- Epairs; now apply (in_map (fun f => (fname f, field_text f)))).
    pose proof (po_live _ _ _ H) as HL. rewrite Forall_forall in HL. destruct (HL _ Hin) as (Hr & _). cbn [snd] in Hr. apply renderable_lstrip, Hr. }
  assert (Hnames : map fname (live fs) = keys LI).
  { rewrite Elive. rewrite <- Epairs2. unfold keys. rewrite map_map. reflexivity. }
  assert (HndLI : NoDup (keys LI)).
  { subst LI. unfold live_items. pose proof (items_nodup t K E (po_extra _ _ _ H)) as Hnd. clear -Hnd. unfold keys in *.
    induction (items t K E) as [|kv l IH]; [constructor|]. cbn [map filter] in *. inversion Hnd as [|? ? Hni Hnd']; subst.
    destruct (is_live kv); [|now apply IH]. cbn [map]. constructor; [|now apply IH].
    intros Hi. apply Hni. apply in_map_iff in Hi as (x & Ex & Hx). apply filter_In in Hx as [Hx _]. rewrite <- Ex. now apply in_map. }
  rewrite from_fields_distinct by (rewrite Hnames; exact HndLI).
  rewrite Elive.
  (* the typed part is the live part of KD, the extra part is E *)
  assert (ELI : LI = filter is_live (KD t K) ++ E).
  { subst LI. unfold live_items, items. rewrite filter_app. f_equal. apply filter_all. eapply Forall_impl; [|apply (po_extra_live _ _ _ H)].
    intros kv Hkv. unfold is_live. now rewrite Hkv. }
  assert (Hkd : Forall (fun kv => kroute_kv t kv = true \/ t = PCatchAll) (filter is_live (KD t K))).
  { apply Forall_forall. intros kv Hin. apply filter_In in Hin as [Hin _]. unfold KD in Hin. apply in_map_iff in Hin as (kf & <- & Hkf).
    destruct t; try (left; unfold kroute_kv, kroute; cbn [all_extra negb andb fst]; apply known_name_In; now apply (in_map fst) in Hkf). contradiction. }
  assert (HkE' : Forall (fun kv => kroute_kv t kv = false) E).
  { apply Forall_forall. intros kv Hin. unfold kroute_kv, kroute. destruct (HkE (fst kv)) as [Hf _]; [now apply (in_map fst)|]. now rewrite Hf, andb_false_r. }
  assert (EK : map pair_of (filter (route t (all_extra t)) fs) = filter is_live (KD t K)).
  { rewrite (filter_ext _ (fun f => kroute t (all_extra t) (fst (pair_of f)))) by reflexivity.
    rewrite (filter_map_pairs pair_of (kroute t (all_extra t))), Epairs2, ELI, filter_app.
    destruct t eqn:Et; try (rewrite (filter_all (fun kv => kroute _ _ (fst kv))), (filter_none (fun kv => kroute _ _ (fst kv))), app_nil_r;
      [reflexivity|exact HkE'|eapply Forall_impl; [|exact Hkd]; intros kv [Hk|Hc]; [exact Hk|discriminate]]).
    cbn [KD known_fields map filter app]. apply filter_none. exact HkE'. }
  assert (EE : map pair_of (filter (fun f => negb (route t (all_extra t) f)) fs) = E).
  { rewrite (filter_ext _ (fun f => (fun k => negb (kroute t (all_extra t) k)) (fst (pair_of f)))) by reflexivity.
    rewrite (filter_map_pairs pair_of (fun k => negb (kroute t (all_extra t) k))), Epairs2, ELI, filter_app.
    assert (F2 : filter (fun kv : str * str => negb (kroute t (all_extra t) (fst kv))) E = E).
    { apply filter_all. eapply Forall_impl; [|exact HkE']. intros kv Hk. unfold kroute_kv in Hk. now rewrite Hk. }
    rewrite F2. destruct t eqn:Et; try (rewrite filter_none; [reflexivity|eapply Forall_impl; [|exact Hkd]; intros kv [Hk|Hc]; [unfold kroute_kv in Hk; now rewrite Hk|discriminate]]).
    reflexivity. }
  change (map (fun f => (fname f, fvalue f))) with (map pair_of). rewrite EK, EE.
  eexists. split; [reflexivity|].
  unfold KD at 1. apply map_ext_Forall. pose proof (po_stable _ _ _ H) as Hst. rewrite Forall_forall in *. intros [k c] Hin. cbn [fst snd]. f_equal.
  rewrite lookup_filter_live; [|rewrite keys_KD; apply known_names_nodup|apply (po_blank _ _ _ H)].
  rewrite (lookup_KD t K k c Hin). apply (Hst (k, c) Hin).
Qed.

Theorem reparse_para t K E n : para_ok t K E ->
  exists p', from_fields t (expected_para n (rendered t K E)) = Ok p' /\ p_type p' = t /\
             para_to_dict p' = KD t K ++ ED E.
Proof.
  intros H. destruct (reparse_para_shape t K E n H) as (L' & Ep & EK). eexists. split; [exact Ep|]. split; [reflexivity|].
  rewrite to_dict_shape by apply (po_extra _ _ _ H). now rewrite EK.
Qed.

(* ---------- whole documents ---------- *)

Record spec := mkSpec { s_type : ptype; s_known : pydict str; s_extra : pydict str; s_lines : pydict (N * N) }.
Definition build (s : spec) : para := build_para (s_type s) (s_known s) (s_extra s) (s_lines s).
Definition srendered (s : spec) : gpara := rendered (s_type s) (s_known s) (s_extra s).

Definition spec_ok (s : spec) : Prop :=
  para_ok (s_type s) (s_known s) (s_extra s) /\ s_type s <> PCatchAll /\
  para_dumps (build s) = base_dumps (build s) /\
  (forall n, classify (expected_para n (srendered s)) = s_type s).

Lemma expected_doc_seps1 Gs : forall n,
  Forall2 (fun G g => exists m, g = expected_para m G) Gs (expected_doc n (seps1 Gs)).
Proof.
  induction Gs as [|G Gs IH]; intros n; [constructor|]. destruct Gs as [|G2 Gs'].
  - cbn [seps1 expected_doc]. constructor; [now exists n|constructor].
  - change (seps1 (G :: G2 :: Gs')) with ((G, 1%nat) :: seps1 (G2 :: Gs')). cbn [expected_doc]. constructor; [now exists n|apply IH].
Qed.

Lemma mapM_Forall2 {A B} (f : A -> result B) l ys : Forall2 (fun x y => f x = Ok y) l ys -> mapM f l = Ok ys.
Proof. induction 1 as [|x y l ys Hxy _ IH]; [reflexivity|]. cbn [mapM]. rewrite Hxy. cbn [bind]. rewrite IH. reflexivity. Qed.

Theorem doc_roundtrip specs : specs <> [] -> Forall spec_ok specs ->
  exists ps', from_text (doc_dumps (map build specs)) = Ok ps' /\
    Forall2 (fun p p' => p_type p' = p_type p /\ para_to_dict p' = para_to_dict p) (map build specs) ps'.
Proof.
  intros Hne Hok. set (Gs := map srendered specs).
  assert (HG : Forall (fun g => g <> [] /\ Forall wf_gfield g) Gs).
  { subst Gs. rewrite Forall_map. eapply Forall_impl; [|exact Hok]. intros s (Hp & _). destruct (base_dumps_render _ _ _ (s_lines s) Hp) as (_ & H1 & H2). now split. }
  assert (Etext : doc_dumps (map build specs) = doc_text (seps1 Gs)).
  { unfold doc_dumps. rewrite doc_text_blocks; [|subst Gs; destruct specs; [contradiction|discriminate]|eapply Forall_impl; [|exact HG]; now intros g [H _]].
    f_equal. f_equal. subst Gs. rewrite !map_map. apply map_ext_Forall. eapply Forall_impl; [|exact Hok].
    intros s (Hp & _ & Hd & _). rewrite Hd. apply (base_dumps_render _ _ _ (s_lines s) Hp). }
  unfold from_text. rewrite Etext, wf_doc_text_parses by now apply seps1_wf. cbn [bind].
  (* every group is rebuilt into a paragraph with the same type and dictionary form *)
  assert (F : exists ps0, Forall2 (fun g p => from_fields (classify g) g = Ok p) (expected_doc 1 (seps1 Gs)) ps0 /\
                          Forall2 (fun p p' => p_type p' = p_type p /\ para_to_dict p' = para_to_dict p) (map build specs) ps0).
  { pose proof (expected_doc_seps1 Gs 1) as HE. subst Gs. clear Etext HG Hne. revert HE. generalize (expected_doc 1 (seps1 (map srendered specs))). intros gs HE.
    revert gs HE. induction Hok as [|s specs (Hp & Hnc & Hd & Hcl) _ IH]; intros gs HE.
    - inversion HE; subst. exists []. split; constructor.
    - cbn [map] in HE. inversion HE as [|? g ? gs' (m & Eg) HE']; subst. destruct (IH gs' HE') as (ps0 & F1 & F2).
      destruct (reparse_para _ _ _ m Hp) as (p' & Ep & Et & Ed). exists (p' :: ps0). split.
      + constructor; [|exact F1]. fold (srendered s). rewrite Hcl. exact Ep.
      + cbn [map]. constructor; [|exact F2]. split; [exact Et|]. rewrite Ed. unfold build. symmetry. apply to_dict_shape. apply Hp. }
  destruct F as (ps0 & F1 & F2). exists ps0. split; [|exact F2].
  unfold from_groups. rewrite (mapM_Forall2 _ _ _ F1). cbn [bind].
  assert (Hnc : Forall (fun p => is_catchall p = false) ps0).
  { clear -F2 Hok. revert ps0 F2. induction Hok as [|s specs (_ & Hnc & _) _ IH]; intros ps0 F2; inversion F2 as [|? p' ? ps0' [Ht _] F2']; subst; constructor.
    - unfold is_catchall. rewrite Ht. unfold build, build_para. cbn [p_type]. destruct (s_type s); try reflexivity. contradiction.
    - now apply IH. }
  rewrite merge_unknown_id by exact Hnc. unfold fold_license. rewrite fold_list_id by exact Hnc. now destruct (Nat.leb _ 2).
Qed.
