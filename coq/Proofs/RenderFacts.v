(* Proofs for C13: parse after render is stable, field class by field class, and extra fields
   re-parse to the text they were rendered from. *)
From Coq Require Import String.
From Coq Require Import Arith NArith List Bool Lia.
From DI Require Import Result PyStr PyStrFacts Codec CodecFacts Deb822 Deb822Facts Debcon Copyright
  ParseFacts DepsParseFacts Grammar822 Grammar822Facts Grammar822Header Dep5Facts WordFacts.
Import ListNotations.
Open Scope N_scope.

(* ---------- single-line and whitespace-list fields: for every value ---------- *)

Theorem single_stable raw : convert FSingle (fval_dumps (convert FSingle raw)) = convert FSingle raw.
Proof. cbn [convert fval_dumps]. f_equal. apply strip_by_idem. Qed.

Theorem ws_list_stable raw : convert FWS (fval_dumps (convert FWS raw)) = convert FWS raw.
Proof.
  cbn [convert fval_dumps]. f_equal. change (split_ws (join nl_sp (split_ws raw))) with (words (join nl_sp (words raw))).
  rewrite words_join by (discriminate || reflexivity). apply words_of_words.
Qed.

(* ---------- one copyright statement: for every value ---------- *)

Lemma words_norm v : words (join [32] (words v)) = words v.
Proof. rewrite words_join by (discriminate || reflexivity). apply words_of_words. Qed.

Theorem statement_stable v :
  statement_from_value (statement_dumps (statement_from_value v)) = statement_from_value v.
Proof.
  rewrite (statement_spec (statement_dumps _)). fold (words (statement_dumps (statement_from_value v))).
  rewrite words_statement. rewrite (statement_spec v). reflexivity.
Qed.

(* the rendering of a statement is its words joined by single spaces *)
Lemma statement_dumps_norm v : statement_dumps (statement_from_value v) = join [32] (words v).
Proof.
  rewrite statement_spec. pose proof (split_ws_words v) as H. fold (words v) in *. destruct (words v) as [|w rest]; [reflexivity|].
  inversion H as [|? ? Hw Hr]; subst. destruct (is_year_range w).
  - unfold statement_dumps. destruct w as [|c w']; [destruct Hw; contradiction|]. destruct rest as [|r rest'].
    + cbn [join]. rewrite app_nil_r. unfold strip. rewrite (strip_by_app_all is_space (c :: w') [32] eq_refl). now apply nospace_strip, Hw.
    + change (strip (join [32] ((c :: w') :: r :: rest')) = join [32] ((c :: w') :: r :: rest')). apply strip_join_words. now constructor.
  - unfold statement_dumps. apply strip_join_words. now constructor.
Qed.

(* ---------- formatted text (comment, disclaimer, source) and extra data ---------- *)

Theorem formatted_stable v : policy_value v ->
  fval_dumps (convert FFormatted (fval_dumps (convert FFormatted v))) = fval_dumps (convert FFormatted v).
Proof.
  intros Hv. cbn [convert fval_dumps]. unfold ftf_dumps, line_separated. fold (as_formatted_text (from_formatted_text v)).
  fold (as_formatted_text (from_formatted_text (as_formatted_text (from_formatted_text v)))).
  now apply encode_decode_fixpoint.
Qed.

(* extra data in decoded normal form survives to_dict (encode) followed by from_dict (decode) *)
Theorem extra_stable ls : normal_lines ls ->
  from_formatted_text (as_formatted_text (join [LF] ls)) = join [LF] ls.
Proof. intros H. now apply (normal_fix ls H). Qed.

(* ---------- an extra field re-parses to the text it was rendered from ---------- *)

Lemma expected_field_text n f : field_text (expected_field n f) = join [10] (gf_first f :: gf_conts f).
Proof. unfold field_text, expected_field. cbn [f_lines map ln_val]. now rewrite number_from_vals. Qed.

(* the line-tracking parser on the rendering "Name: first / continuation lines" of one field *)
Theorem rendered_field_reparses f n : wf_gfield f ->
  groups_loop (number_from n (field_src f)) [] = Ok [[expected_field n f]] /\
  field_text (expected_field n f) = join [10] (gf_first f :: gf_conts f).
Proof.
  intros Hw. split; [|apply expected_field_text].
  pose proof (wf_doc_parses [([f], 0%nat)] n) as H. cbn [doc_src flat_map repeat app expected_doc expected_para] in H.
  rewrite !app_nil_r in H. apply H. cbn [wf_doc]. repeat split; [discriminate|now constructor|intros C; now contradiction C].
Qed.

(* ---------- a multi-line copyright field ---------- *)

Definition PAD : str := lit "           ".
Lemma sep_pad : lit (String (Ascii.ascii_of_nat 10) "           ") = 10 :: PAD.
Proof. reflexivity. Qed.

Lemma join_pad pad x ys : join (10 :: pad) (x :: ys) = join [10] (x :: map (fun y => pad ++ y) ys).
Proof.
  revert x; induction ys as [|y ys IH]; intros x; [reflexivity|]. cbn [map]. rewrite !join_cons, IH.
  f_equal. cbn [app]. f_equal. destruct (map (fun y0 => pad ++ y0) ys) as [|m M]; [reflexivity|].
  rewrite !join_cons. now rewrite <- app_assoc.
Qed.

Lemma join_last_char (sep : str) (ls : list str) : forall (a : str) (x : char), ls <> [] -> last ls [] = a ++ [x] -> exists a' : str, join sep ls = a' ++ [x].
Proof.
  induction ls as [|l ls IH]; intros a x Hne Hl; [contradiction|]. destruct ls as [|l2 ls].
  - cbn [join last] in *. now exists a.
  - change (last (l :: l2 :: ls) []) with (last (l2 :: ls) []) in Hl. destruct (IH a x ltac:(discriminate) Hl) as (a' & E).
    exists (l ++ sep ++ a'). rewrite join_cons, E. now rewrite <- !app_assoc.
Qed.

Lemma statement_words_ext a b : words a = words b -> statement_from_value a = statement_from_value b.
Proof. intros H. rewrite (statement_spec a), (statement_spec b). unfold words in H. now rewrite H. Qed.

Lemma words_nolb ws : Forall word ws -> no_lb is_linebreak (join [32] ws).
Proof.
  intros H. unfold no_lb. induction H as [|w ws [_ Hw] Hws IH]; [constructor|].
  assert (G : Forall (fun c => is_linebreak c = false) w).
  { eapply Forall_impl; [|exact Hw]. intros c Hc. destruct (is_linebreak c) eqn:E; [|reflexivity]. apply linebreak_space in E. congruence. }
  destruct ws as [|w2 ws]; [exact G|]. rewrite join_cons. apply Forall_app; split; [exact G|]. constructor; [reflexivity|exact IH].
Qed.

Theorem copyright_stable raw : Forall (fun l => words l <> []) (splitlines raw) ->
  convert FCopyright (fval_dumps (convert FCopyright raw)) = convert FCopyright raw.
Proof.
  intros Hw. cbn [convert fval_dumps]. unfold line_separated. f_equal. rewrite map_map, sep_pad.
  rewrite (map_ext _ (fun l => join [32] (words l))) by (intros l; apply statement_dumps_norm).
  destruct (splitlines raw) as [|l0 ls] eqn:Es; [reflexivity|]. cbn [map]. rewrite join_pad.
  set (N := fun l => join [32] (words l)).
  pose (L := N l0 :: map (fun y => PAD ++ y) (map N ls)).
  change (map statement_from_value (splitlines (strip (join [10] L))) = statement_from_value l0 :: map statement_from_value ls).
  assert (Hword : forall l, words l <> [] -> (exists c r, N l = c :: r /\ is_space c = false) /\
                                           (exists a x, N l = a ++ [x] /\ is_space x = false) /\ no_lb is_linebreak (N l)).
  { intros l Hl. pose proof (split_ws_words l) as Hws. fold (words l) in Hws. subst N. cbv beta. repeat split.
    - now apply join_words_head.
    - now apply join_words_last.
    - now apply words_nolb. }
  inversion Hw as [|? ? H0 Hrest]; subst.
  (* the joined text starts and ends with a non-space character: strip changes nothing *)
  assert (Hhead : exists c r, join [10] L = c :: r /\ is_space c = false).
  { destruct (Hword l0 H0) as ((c & r & E & Hc) & _). subst L. destruct (map (fun y => PAD ++ y) (map N ls)) as [|y ys].
    - cbn [join]. now exists c, r.
    - rewrite join_cons, E. eexists c, _. split; [reflexivity|exact Hc]. }
  assert (Hlast : exists a x, join [10] L = a ++ [x] /\ is_space x = false).
  { assert (G : exists a x, last L [] = a ++ [x] /\ is_space x = false).
    { subst L. destruct ls as [|l1 ls'].
      - cbn [map last]. apply (Hword l0 H0).
      - change (last (N l0 :: map (fun y => PAD ++ y) (map N (l1 :: ls'))) []) with (last (map (fun y => PAD ++ y) (map N (l1 :: ls'))) []).
        rewrite map_map. destruct (exists_last (l := l1 :: ls')) as (pre & lz & E); [discriminate|]. rewrite E, map_app. cbn [map].
        rewrite last_last. assert (Hz : words lz <> []). { rewrite E in Hrest. apply Forall_app in Hrest as [_ Hz]. now inversion Hz. }
        destruct (Hword lz Hz) as (_ & (a & x & Ea & Hx) & _). rewrite Ea. exists (PAD ++ a), x. split; [now rewrite <- app_assoc|exact Hx]. }
    destruct G as (a & x & Ea & Hx). destruct (join_last_char [10] L a x ltac:(subst L; discriminate) Ea) as (a' & E').
    now exists a', x. }
  assert (Hstrip : strip (join [10] L) = join [10] L).
  { destruct Hhead as (c & r & E & Hc). destruct Hlast as (a & x & E2 & Hx). unfold strip. apply strip_by_fixed; [rewrite E; exact Hc|].
    rewrite E2. now apply rstrip_by_snoc_keep. }
  rewrite Hstrip. fold splitlines. unfold splitlines. rewrite splitlines_join.
  - subst L. cbn [map]. f_equal.
    + apply statement_words_ext. subst N. apply words_norm.
    + rewrite !map_map. apply map_ext. intros l. apply statement_words_ext. rewrite words_lead_space by reflexivity. apply words_norm.
  - reflexivity.
  - subst L. constructor; [apply (Hword l0 H0)|]. rewrite map_map. rewrite Forall_map. eapply Forall_impl; [|exact Hrest].
    intros l Hl. unfold no_lb. apply Forall_app; split; [repeat constructor|apply (Hword l Hl)].
  - subst L. discriminate.
  - destruct Hlast as (a & x & E2 & Hx). intros E. assert (G : exists a x, last L [0] = a ++ [x]).
    { clear -Hword H0 Hrest. subst L. destruct ls as [|l1 ls'].
      - cbn [map last]. destruct (Hword l0 H0) as (_ & (a & x & Ea & _) & _). now exists a, x.
      - change (last (N l0 :: map (fun y => PAD ++ y) (map N (l1 :: ls'))) [0]) with (last (map (fun y => PAD ++ y) (map N (l1 :: ls'))) [0]).
        rewrite map_map. destruct (exists_last (l := l1 :: ls')) as (pre & lz & E); [discriminate|]. rewrite E, map_app. cbn [map].
        rewrite last_last. exists (PAD ++ removelast (N lz)), (last (N lz) 0).
        assert (Hz : words lz <> []). { rewrite E in Hrest. apply Forall_app in Hrest as [_ Hz]. now inversion Hz. }
        destruct (Hword lz Hz) as ((c & r & Ec & _) & _). rewrite <- app_assoc. f_equal. apply app_removelast_last. rewrite Ec. discriminate. }
    destruct G as (a0 & x0 & G). rewrite G in E. destruct a0; discriminate.
Qed.

(* ---------- a rendering made of solid blocks splits back into exactly those blocks ---------- *)

From DI Require Import Email.

(* no empty line inside: never two line feeds in a row *)
Fixpoint no_dlf (s : str) : Prop :=
  match s with
  | 10 :: ((10 :: _) as t) => False
  | _ :: t => no_dlf t
  | [] => True
  end.

Definition solid_block (s : str) : Prop :=
  no_dlf s /\ (exists c r, s = c :: r /\ c <> 10 /\ is_blank_tab c = false) /\ (exists a x, s = a ++ [x] /\ x <> 10).

Lemma no_dlf_tail c s : no_dlf (c :: s) -> no_dlf s.
Proof. destruct c as [|p]; [now destruct s|]. destruct s as [|d s']; [intros; exact I|]. cbn [no_dlf]. repeat (destruct p as [p|p|]; try tauto). destruct d as [|q]; [tauto|]. repeat (destruct q as [q|q|]; try tauto). Qed.

Lemma no_dlf_10_10 s : ~ no_dlf (10 :: 10 :: s).
Proof. cbn. tauto. Qed.

(* inside a block the scanner only accumulates *)
Lemma block_run s : forall cur pn rest, no_dlf s -> (pn = true -> match s with 10 :: _ => False | _ => True end) ->
  split_paras_aux cur pn false [] (s ++ rest) =
  split_paras_aux (rev s ++ cur) (match rev s with 10 :: _ => true | [] => pn | _ => false end) false [] rest.
Proof.
  induction s as [|c s IH]; intros cur pn rest Hn Hpn; [reflexivity|]. cbn [app split_paras_aux].
  assert (E : (c =? 10) && pn = false).
  { destruct (N.eqb_spec c 10) as [->|]; [|reflexivity]. destruct pn; [exfalso; now apply Hpn|reflexivity]. }
  rewrite E. rewrite IH.
  - cbn [rev]. rewrite <- app_assoc. f_equal.
    destruct (rev s) as [|x r] eqn:Er; cbn [app]; [|reflexivity].
    destruct (N.eqb_spec c 10) as [->|Hc]; [reflexivity|]. destruct c as [|p]; [reflexivity|]. repeat (destruct p as [p|p|]; try reflexivity). contradiction.
  - now apply no_dlf_tail in Hn.
  - intros Hc. apply N.eqb_eq in Hc. subst c. destruct s as [|d s']; [exact I|]. destruct d as [|q]; [exact I|].
    repeat (destruct q as [q|q|]; try exact I). exfalso. now apply (no_dlf_10_10 s').
Qed.

Lemma rev_last_not10 (s a : str) x : s = a ++ [x] -> x <> 10 -> match rev s with 10 :: _ => true | [] => false | _ => false end = false.
Proof. intros -> Hx. rewrite rev_app_distr. cbn [rev app]. destruct x as [|p]; [reflexivity|]. repeat (destruct p as [p|p|]; try reflexivity). contradiction. Qed.

Fixpoint blocks_pieces (bs : list str) : list str :=
  match bs with
  | [] => []
  | [b] => [b ++ [10]]
  | b :: bs' => b :: blocks_pieces bs'
  end.

Theorem split_solid_blocks bs : Forall solid_block bs -> forall b0,
  split_paras_aux [] false b0 [] (join [10; 10] bs ++ [10]) = match bs with [] => (if b0 then [] else [[10]]) | _ => blocks_pieces bs end.
Proof.
  induction 1 as [|s bs (Hn & (c & r & Es & Hc & Hb) & (a & x & Ea & Hx)) Hrest IH]; intros b0.
  - destruct b0; reflexivity.
  - (* entering the block: from the start or from a separator, the first character opens the piece *)
    assert (Hflag : match rev r with 10 :: _ => true | _ => false end = false).
    { destruct r as [|r0 r1]; [reflexivity|]. destruct (exists_last (l := r0 :: r1)) as (r' & z & E); [discriminate|].
      rewrite E in *. rewrite Es in Ea. change (c :: r' ++ [z]) with ((c :: r') ++ [z]) in Ea. apply app_inj_tail in Ea as [_ ->].
      rewrite rev_app_distr. cbn [rev app]. destruct x as [|p]; [reflexivity|]. repeat (destruct p as [p|p|]; try reflexivity). contradiction. }
    assert (Henter : forall rest, split_paras_aux [] false b0 [] (s ++ rest) = split_paras_aux (rev s) false false [] rest).
    { intros rest. rewrite Es. cbn [app split_paras_aux]. pose proof Hc as Hc'. apply N.eqb_neq in Hc'. destruct b0.
      - rewrite Hc', Hb. rewrite block_run; [| rewrite Es in Hn; now apply no_dlf_tail in Hn|discriminate].
        cbn [rev]. f_equal. destruct (rev r) as [|y0 t0]; [reflexivity|exact Hflag].
      - rewrite Hc'. cbn [andb]. rewrite block_run; [| rewrite Es in Hn; now apply no_dlf_tail in Hn|discriminate].
        cbn [rev]. f_equal. destruct (rev r) as [|y0 t0]; [reflexivity|exact Hflag]. }
    assert (Hrs : exists y t, rev s = y :: t /\ y <> 10).
    { rewrite Ea, rev_app_distr. cbn [rev app]. now exists x, (rev a). }
    destruct Hrs as (y & t & Ers & Hy).
    destruct bs as [|s2 bs'].
    + cbn [join blocks_pieces]. rewrite Henter. cbn [split_paras_aux]. cbn [andb]. rewrite andb_false_r. cbn [split_paras_aux].
      cbn [rev]. now rewrite rev_involutive.
    + rewrite join_cons. rewrite <- !app_assoc. rewrite Henter.
      change ([10; 10] ++ join [10; 10] (s2 :: bs') ++ [10]) with (10 :: 10 :: (join [10; 10] (s2 :: bs') ++ [10])).
      cbn [split_paras_aux]. rewrite andb_false_r. change (10 =? 10) with true. cbn [andb tl]. rewrite Ers.
      rewrite (IH true). cbn [blocks_pieces]. f_equal. rewrite <- Ers. apply rev_involutive.
Qed.

(* the rendering of a document whose paragraph renderings are solid splits back into exactly
   as many paragraphs *)
Corollary doc_dumps_splits ps : Forall solid_block (map para_dumps ps) -> ps <> [] ->
  split_in_paragraphs (doc_dumps ps) = blocks_pieces (map para_dumps ps) /\
  length (split_in_paragraphs (doc_dumps ps)) = length ps.
Proof.
  intros Hs Hne. unfold split_in_paragraphs, doc_dumps. rewrite (split_solid_blocks _ Hs false).
  destruct ps as [|p ps']; [contradiction|]. cbn [map]. split; [reflexivity|].
  assert (G : forall l : list str, length (blocks_pieces l) = length l).
  { induction l as [|b [|b2 l'] IHl]; [reflexivity|reflexivity|]. change (blocks_pieces (b :: b2 :: l')) with (b :: blocks_pieces (b2 :: l')). cbn [length]. now rewrite IHl. }
  rewrite G. cbn [length]. now rewrite map_length.
Qed.

(* ---------- line lists (Upstream-Contact) ---------- *)

Lemma nl_sp_is : nl_sp = 10 :: [32]. Proof. reflexivity. Qed.

Theorem line_list_stable raw :
  (match splitlines raw with l0 :: _ => strip l0 <> [] | [] => True end) ->
  convert FLineSep (fval_dumps (convert FLineSep raw)) = convert FLineSep raw.
Proof.
  intros H0. cbn [convert fval_dumps]. unfold line_separated. f_equal.
  pose proof (splitlines_no_lb is_linebreak raw) as Hnl. fold splitlines in Hnl.
  destruct (splitlines raw) as [|l0 ls]; [reflexivity|]. cbn [map]. rewrite nl_sp_is, join_pad.
  inversion Hnl as [|? ? Hl0 Hls]; subst.
  assert (Hs : forall l, no_lb is_linebreak l -> no_lb is_linebreak (strip l)) by (intros l Hl; now apply Forall_strip_by).
  unfold splitlines. rewrite splitlines_join.
  - cbn [map]. f_equal; [apply strip_by_idem|]. rewrite !map_map. apply map_ext. intros l.
    unfold strip at 1. unfold strip_by, lstrip_by. cbn [app drop_while]. change (is_space 32) with true. cbv iota.
    fold (lstrip_by is_space (strip l)). fold (strip_by is_space (strip l)). apply strip_by_idem.
  - reflexivity.
  - constructor; [now apply Hs|]. rewrite Forall_map, Forall_map. eapply Forall_impl; [|exact Hls]. intros l Hl.
    unfold no_lb. apply Forall_app. split; [repeat constructor|now apply Hs].
  - discriminate.
  - destruct ls as [|l1 ls']; [cbn [map last]; exact H0|].
    change (last (strip l0 :: map (fun y => [32] ++ y) (map strip (l1 :: ls'))) [0]) with (last (map (fun y => [32] ++ y) (map strip (l1 :: ls'))) [0]).
    rewrite map_map. destruct (exists_last (l := l1 :: ls')) as (pre & z & E); [discriminate|]. rewrite E, map_app. cbn [map]. rewrite last_last. discriminate.
Qed.

(* ---------- the License field ---------- *)

Lemma strip_fixed_rstrip s : strip s = s -> rstrip s = s.
Proof.
  intros H. unfold rstrip. rewrite <- H at 1. unfold strip, strip_by. rewrite rstrip_by_idem. exact H.
Qed.

(* a short name and a text in decoded normal form (first text line not empty) render to a value that
   parses back to exactly that name and text *)
Theorem license_stable n t0 trest : n <> [] -> strip n = n -> nolb n ->
  normal_lines (t0 :: trest) -> t0 <> [] ->
  lic_from_value (lic_dumps n (join [LF] (t0 :: trest))) = (n, join [LF] (t0 :: trest)).
Proof.
  intros Hn Hsn Hnl (Hnolb & Hs0 & Hrest & Hlast) Ht0.
  assert (Hhead0 : match t0 with c :: _ => is_space c = false | [] => True end).
  { destruct t0 as [|c r] eqn:E; [exact I|]. unfold strip in Hs0. rewrite <- E in Hs0. rewrite E in Hs0. now apply strip_by_head in Hs0. }
  assert (Hheadn : match n with c :: _ => is_space c = false | [] => True end).
  { destruct n as [|c r] eqn:E; [exact I|]. unfold strip in Hsn. now apply strip_by_head in Hsn. }
  set (t := join [LF] (t0 :: trest)).
  assert (Et : exists c r, t = c :: r /\ is_space c = false).
  { subst t. destruct t0 as [|c r0]; [contradiction|]. destruct trest; [exists c, r0|rewrite join_cons; exists c, (r0 ++ [LF] ++ join [LF] (s :: trest))]; split; auto. }
  destruct Et as (c & r & Etc & Hc).
  assert (Esplit : splitlines t = t0 :: trest) by (subst t; apply splitlines_join; [reflexivity|exact Hnolb|discriminate|exact Hlast]).
  (* the rendering *)
  assert (Edump : lic_dumps n t = join [LF] (n :: map (fun l => SP :: fmt1 l) (t0 :: trest))).
  { unfold lic_dumps, desc_dumps. cbv zeta. rewrite Hsn, Etc. assert (E32 : (c =? 32) = false) by (destruct (N.eqb_spec c 32) as [->|]; [discriminate|reflexivity]).
    rewrite E32, <- Etc, Esplit, as_formatted_lines_cons.
    assert (Ef0 : fmt0 n = n). { unfold fmt0. destruct (all_space n) eqn:E; [|reflexivity]. destruct n as [|x n']; [contradiction|]. unfold all_space in E. cbn [forallb] in E. rewrite Hheadn in E. discriminate. }
    rewrite Ef0. unfold strip. apply strip_by_fixed.
    - cbn [map]. rewrite join_cons. destruct n; [contradiction|exact Hheadn].
    - (* the last character is the last character of the last text line, which is not a space *)
      destruct (exists_last (l := t0 :: trest)) as (pre & lz & El); [discriminate|]. rewrite El in *. rewrite last_last in Hlast.
      assert (Hz : rstrip lz = lz).
      { destruct pre as [|p0 pre']; cbn [app] in El.
        - inversion El; subst. now apply strip_fixed_rstrip.
        - inversion El; subst. apply Forall_app in Hrest as [_ Hz]. inversion Hz as [|? ? [Hz1 _] _]; subst. exact Hz1. }
      assert (Hfz : fmt1 lz = lz).
      { unfold fmt1. destruct (all_space lz) eqn:E; [|reflexivity]. exfalso. unfold rstrip in Hz. rewrite rstrip_by_all in Hz by exact E. now subst. }
      destruct (rstrip_by_last is_space lz) as [E0|(a & x & Ea & Hx)]; [unfold rstrip in Hz; rewrite Hz in E0; contradiction|].
      unfold rstrip in Hz. rewrite Hz in Ea.
      assert (Ej : exists pre', join [LF] (n :: map (fun l => SP :: fmt1 l) (pre ++ [lz])) = pre' ++ [x]).
      { rewrite map_app. cbn [map]. rewrite Hfz, Ea.
        change (n :: map (fun l => SP :: fmt1 l) pre ++ [SP :: a ++ [x]]) with ((n :: map (fun l => SP :: fmt1 l) pre) ++ [(SP :: a) ++ [x]]).
        apply (join_last_char [LF] _ (SP :: a) x); [destruct (map _ pre); discriminate|now rewrite last_last]. }
      destruct Ej as (pre' & Ej). rewrite Ej. now apply rstrip_by_snoc_keep. }
  rewrite Edump. unfold lic_from_value, desc_from_value, line_separated.
  assert (Esp2 : splitlines (join [LF] (n :: map (fun l => SP :: fmt1 l) (t0 :: trest))) = n :: map (fun l => SP :: fmt1 l) (t0 :: trest)).
  { apply splitlines_join; [reflexivity| |discriminate|].
    - constructor; [exact Hnl|]. rewrite Forall_map. eapply Forall_impl; [|exact Hnolb]. intros l Hl. now apply nolb_sp_fmt1.
    - change (last (n :: map (fun l => SP :: fmt1 l) (t0 :: trest)) [0]) with (last (map (fun l => SP :: fmt1 l) (t0 :: trest)) [0]).
      apply last_map_cons; [discriminate|intros x; discriminate]. }
  rewrite Esp2, Hsn. f_equal. cbn [map from_formatted_lines].
  assert (E0 : strip (SP :: fmt1 t0) = t0).
  { assert (Hf : fmt1 t0 = t0). { unfold fmt1. destruct (all_space t0) eqn:E; [|reflexivity]. exfalso. unfold strip in Hs0. rewrite strip_by_all in Hs0 by exact E. now subst. }
    rewrite Hf. unfold strip at 1. unfold strip_by, lstrip_by. cbn [drop_while]. change (is_space SP) with true. cbv iota.
    fold (lstrip_by is_space t0). fold (strip_by is_space t0). exact Hs0. }
  rewrite E0. rewrite map_map.
  rewrite (map_ext_Forall _ (fun l => l)); [rewrite map_id|].
  - unfold lstrip, lstrip_by. fold t. rewrite Etc. cbn [drop_while]. now rewrite Hc.
  - eapply Forall_impl; [|exact Hrest]. intros l [Hr Hp]. rewrite decode_cont by exact Hp. exact Hr.
Qed.
