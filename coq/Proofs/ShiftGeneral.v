(* Proofs for C10: k blank lines at the top of ANY text shift the range of every field with a
   value by exactly k and change nothing else - also when some paragraph has no field with a
   value (such a paragraph records no true range; whatever is recorded for it belongs to no value). *)
From Coq Require Import String.
From Coq Require Import Arith NArith List Bool Lia Sorted.
From DI Require Import Result PyStr PyStrFacts Codec CodecFacts Deb822 Deb822Facts Debcon Copyright CopyrightFacts
  RangeFacts Grammar822Header Dep5Facts WordFacts ConserveFacts ShiftFacts FromDictFacts RoundTripFacts FixpointFacts RangeFinal.
Import ListNotations.
Open Scope N_scope.

Definition hollow (p : para) : Prop := Forall (fun v : str => v = []) (pvals p).

Lemma lookup_in_or_nil k (d : pydict str) : lookup k d = [] \/ In (lookup k d) (map snd d).
Proof.
  induction d as [|[a v] d IH]; [now left|]. rewrite lookup_cons. destruct (str_eqb k a); [right; now left|].
  destruct IH as [H|H]; [now left|right; now right].
Qed.

Lemma hollow_vr p : hollow p -> vr p = [].
Proof.
  intros H. unfold vr. rewrite (flat_map_ext _ (fun _ => [])); [apply flat_map_nil|]. intros kv. unfold valued.
  destruct (lookup_in_or_nil (fst kv) (para_to_dict p)) as [E|Hin]; [now rewrite E|].
  unfold hollow, pvals in H. rewrite Forall_forall in H. now rewrite (H _ Hin).
Qed.

Lemma vr_shift k p : vr (shift_para k p) = map (shift_rng k) (vr p).
Proof.
  unfold vr. cbn [shift_para p_lines]. unfold shift_lines. induction (p_lines p) as [|kv l IH]; [reflexivity|].
  cbn [map flat_map fst snd]. change (valued (shift_para k p) (fst kv)) with (valued p (fst kv)).
  destruct (valued p (fst kv)); cbn [app map]; now rewrite IH.
Qed.

(* what the final theorem says of each paragraph *)
Definition Rout (k : N) (p p' : para) : Prop :=
  p_type p' = p_type p /\ para_to_dict p' = para_to_dict p /\ vr p' = map (shift_rng k) (vr p).

(* the paragraphs between merging and folding: shifted literally, or an unknown paragraph merged
   from paragraphs without any value (identical on both sides, and without content) *)
Definition Rin (k : N) (p p' : para) : Prop :=
  p' = shift_para k p \/ (p' = p /\ hollow p /\ is_catchall p = true).

Lemma Rin_Rout k p p' : Rin k p p' -> Rout k p p'.
Proof.
  intros [->|(-> & Hh & _)].
  - split; [reflexivity|]. split; [reflexivity|apply vr_shift].
  - split; [reflexivity|]. split; [reflexivity|]. now rewrite (hollow_vr p Hh).
Qed.

(* ---------- merging ---------- *)

Lemma para_ranges_shift k run : para_ranges (map (shift_para k) run) = map (shift_rng k) (para_ranges run).
Proof.
  unfold para_ranges. induction run as [|p run IH]; [reflexivity|]. cbn [map flat_map]. rewrite IH, map_app. f_equal.
  cbn [shift_para p_lines]. destruct (p_lines p) as [|kv l] eqn:El; [reflexivity|].
  cbn [shift_lines map]. rewrite <- (first_last_shift k p) by (unfold has_lines; rewrite El; discriminate).
  unfold shift_para. rewrite El. reflexivity.
Qed.

Lemma merge_run_shift_gen k run : para_ranges run <> [] ->
  merge_run (map (shift_para k) run) = shift_para k (merge_run run).
Proof.
  intros Hne. unfold merge_run, shift_para at 3. cbn [p_type p_fields p_extra p_lines shift_lines map fst snd]. f_equal.
  - f_equal. f_equal. f_equal. rewrite flat_map_concat_map, map_map, <- flat_map_concat_map. reflexivity.
  - f_equal. f_equal. fold (para_ranges (map (shift_para k) run)). fold (para_ranges run). rewrite para_ranges_shift.
    destruct (para_ranges run) as [|r0 rs]; [contradiction|]. cbn [map]. apply fold_minmax_shift'.
Qed.

Lemma merge_run_same k run : para_ranges run = [] -> merge_run (map (shift_para k) run) = merge_run run.
Proof.
  intros E. unfold merge_run. fold (para_ranges (map (shift_para k) run)). fold (para_ranges run). rewrite para_ranges_shift, E. cbn [map].
  f_equal. f_equal. f_equal. f_equal. rewrite flat_map_concat_map, map_map, <- flat_map_concat_map. reflexivity.
Qed.

Lemma merge_run_hollow run segs : Forall2 FB run segs -> Forall (fun p => is_catchall p = true) run -> para_ranges run = [] ->
  hollow (merge_run run).
Proof.
  intros HF Hcat E. assert (Hnil : concat segs = []).
  { destruct (concat segs) eqn:Ec; [reflexivity|]. exfalso. apply (para_ranges_nonempty _ _ HF); [rewrite Ec; discriminate|exact E]. }
  destruct (run_without_content _ _ HF Hcat Hnil) as [Ev _]. unfold hollow, pvals. rewrite merge_run_dict, Ev.
  cbn [from_formatted_lines map snd]. repeat constructor.
Qed.

Theorem merge_unknown_Rin k n : forall ps segs, Forall2 FB ps segs ->
  Forall2 (Rin k) (merge_unknown n ps) (merge_unknown n (map (shift_para k) ps)).
Proof.
  induction n as [|n IH]; intros ps segs HF.
  - cbn [merge_unknown]. clear HF. induction ps; cbn [map]; constructor; [now left|assumption].
  - destruct ps as [|p ps']; [constructor|]. cbn [map merge_unknown]. change (is_catchall (shift_para k p)) with (is_catchall p).
    destruct (is_catchall p) eqn:Ecat.
    + change (shift_para k p :: map (shift_para k) ps') with (map (shift_para k) (p :: ps')). rewrite span_shift.
      pose proof (ConserveFactsLite_span (p :: ps')) as Esp. pose proof (span_catchall_cat (p :: ps')) as Hcat.
      destruct (span_catchall (p :: ps')) as [run rest]. cbn [fst snd] in *. rewrite Esp in HF.
      apply Forall2_app_inv_l in HF as (s1 & s2 & HF1 & HF2 & ->). specialize (IH rest s2 HF2).
      assert (Keep : Forall2 (Rin k) (run ++ merge_unknown n rest) (map (shift_para k) run ++ merge_unknown n (map (shift_para k) rest))).
      { apply Forall2_app; [|exact IH]. clear. induction run; cbn [map]; constructor; [now left|assumption]. }
      destruct run as [|r1 [|r2 run']]; try exact Keep.
      cbn [map]. change (shift_para k r1 :: shift_para k r2 :: map (shift_para k) run') with (map (shift_para k) (r1 :: r2 :: run')).
      assert (Eau : forallb is_all_unknown (map (shift_para k) (r1 :: r2 :: run')) = forallb is_all_unknown (r1 :: r2 :: run')).
      { generalize (r1 :: r2 :: run') as L. intros L. induction L as [|x L IHL]; [reflexivity|]. cbn [map forallb]. rewrite IHL. reflexivity. }
      rewrite Eau. destruct (forallb is_all_unknown (r1 :: r2 :: run')); [|exact Keep].
      constructor; [|exact IH].
      destruct (para_ranges (r1 :: r2 :: run')) as [|x xs] eqn:Er.
      * right. split; [now apply merge_run_same|]. split; [now apply (merge_run_hollow _ s1)|reflexivity].
      * left. apply merge_run_shift_gen. rewrite Er. discriminate.
    + inversion HF as [|? seg ? segs0 Hp HF']; subst. constructor; [now left|]. now apply (IH ps' segs0).
Qed.

(* ---------- folding ---------- *)

Lemma hollow_text p : hollow p -> join [10] (filter (fun v : str => nonempty v) (pvals p)) = [].
Proof.
  unfold hollow. induction 1 as [|v l Hv _ IH]; [reflexivity|]. subst v. cbn [filter nonempty]. exact IH.
Qed.

(* the dictionary form and the valued ranges of a folded license *)
Lemma fold_pair_vr p1 p2 : p_type p1 = PLicense -> wfp p1 -> para_is_empty p1 = true -> NoDup (keys (p_lines p1)) ->
  let text := join [10] (filter (fun v : str => nonempty v) (pvals p2)) in
  para_to_dict (fold_pair p1 p2) = [(lit "license", lic_dumps [] text); (lit "comment", [])] /\
  vr (fold_pair p1 p2) =
    if nonempty (lic_dumps [] text)
    then [(match dict_get (lit "license") (p_lines p1) with Some (s, _) => s | None => fst (first_last p2) end, snd (first_last p2))]
    else [].
Proof.
  intros Etype Hw He Hnd text.
  destruct (license_fields p1 Hw Etype) as (n & tx & c & Ef).
  unfold para_is_empty in He. rewrite Etype in He. apply negb_true_iff in He.
  unfold lic_name, lic_text, comment_text, get_field in He. rewrite Ef in He. cbn [find fst] in He.
  change (str_eqb (lit "license") (lit "license")) with true in He.
  change (str_eqb (lit "comment") (lit "license")) with false in He.
  change (str_eqb (lit "comment") (lit "comment")) with true in He. cbv iota in He. cbn [find fst] in He.
  change (str_eqb (lit "license") (lit "comment")) with false in He.
  change (str_eqb (lit "comment") (lit "comment")) with true in He. cbv iota in He.
  apply orb_false_iff in He as [He H4]. apply orb_false_iff in He as [He H3]. apply orb_false_iff in He as [H1' H2'].
  destruct (p_extra p1) as [|x ex] eqn:Eex; [|discriminate]. destruct c; [|discriminate]. destruct n; [|discriminate]. destruct tx; [|discriminate].
  assert (Ed : para_to_dict (fold_pair p1 p2) = [(lit "license", lic_dumps [] text); (lit "comment", [])]).
  { unfold fold_pair. destruct (first_last p2) as [f2 e2]. unfold para_to_dict, known_to_dict. cbn [p_fields p_extra].
    unfold set_license. rewrite Ef, Eex. cbn [map fst snd extra_to_dict fold_left].
    change (str_eqb (lit "license") (lit "license")) with true.
    change (str_eqb (lit "comment") (lit "license")) with false. cbv iota. reflexivity. }
  split; [exact Ed|].
  assert (Ev : forall name, valued (fold_pair p1 p2) name = str_eqb name (lit "license") && nonempty (lic_dumps [] text)).
  { intros name. unfold valued, lookup. rewrite Ed. cbn [dict_get]. destruct (str_eqb name (lit "license")); [reflexivity|].
    destruct (str_eqb name (lit "comment")); reflexivity. }
  unfold vr. rewrite fold_range.
  rewrite (flat_map_ext _ (fun kv : str * (N * N) => if str_eqb (fst kv) (lit "license") && nonempty (lic_dumps [] text) then [snd kv] else [])).
  - now apply pick_key_put.
  - intros kv. now rewrite Ev.
Qed.

Lemma keys_shift_lines k (d : pydict (N * N)) : keys (shift_lines k d) = keys d.
Proof. unfold keys, shift_lines. rewrite map_map. reflexivity. Qed.

Lemma fold_pair_Rout k p1 p2 p2' s1 s2 : foldable p1 p2 = true -> PI p1 s1 -> PI p2 s2 -> Rin k p2 p2' ->
  Rout k (fold_pair p1 p2) (fold_pair (shift_para k p1) p2').
Proof.
  intros Hf H1 H2 HR.
  assert (Hf' := Hf). unfold foldable in Hf'. apply andb_true_iff in Hf' as [Hf' _]. apply andb_true_iff in Hf' as [Hf' _].
  apply andb_true_iff in Hf' as [Ht He]. destruct (p_type p1) eqn:Etype; try discriminate.
  assert (HFB : FB p1 s1) by (apply (pi_exact _ _ H1); unfold is_catchall; now rewrite Etype).
  (* the case where the folded text is empty *)
  assert (Empty : hollow p2 -> para_to_dict p2' = para_to_dict p2 -> Rout k (fold_pair p1 p2) (fold_pair (shift_para k p1) p2')).
  { intros Hh Ed2.
    destruct (fold_pair_vr p1 p2 Etype (fb_shape _ _ HFB) He (fb_nodup _ _ HFB)) as [D1 V1].
    assert (Hnd' : NoDup (keys (p_lines (shift_para k p1)))) by (cbn [shift_para p_lines]; rewrite keys_shift_lines; apply (fb_nodup _ _ HFB)).
    destruct (fold_pair_vr (shift_para k p1) p2' Etype (fb_shape _ _ HFB) He Hnd') as [D2 V2]. cbv zeta in *.
    assert (Ep : pvals p2' = pvals p2) by (unfold pvals; now rewrite Ed2).
    rewrite Ep in D2, V2. rewrite (hollow_text p2 Hh) in D1, V1, D2, V2.
    split; [unfold fold_pair; destruct (first_last p2'), (first_last p2); reflexivity|]. split; [now rewrite D1, D2|].
    rewrite V1, V2. reflexivity. }
  destruct HR as [->|(-> & Hh & _)]; [|now apply Empty].
  destruct s2 as [|x s2'].
  - apply Empty; [apply (pi_empty _ _ H2 eq_refl)|reflexivity].
  - apply Rin_Rout. left. apply fold_pair_shift. apply (pi_lines _ _ H2). discriminate.
Qed.

Lemma foldable_Rin k p1 p2 p1' p2' : Rin k p1 p1' -> Rin k p2 p2' -> foldable p1' p2' = foldable p1 p2.
Proof. intros [->|(-> & _)] [->|(-> & _)]; reflexivity. Qed.

Theorem fold_list_Rout k n : forall ps ps' segs, (length ps <= n)%nat -> Forall2 PI ps segs -> Forall2 (Rin k) ps ps' ->
  Forall2 (Rout k) (fold_list ps) (fold_list ps').
Proof.
  induction n as [|n IH]; intros ps ps' segs Hlen HP HR.
  - destruct ps; [|cbn in Hlen; lia]. inversion HR; subst. constructor.
  - destruct ps as [|p1 [|p2 rest]].
    + inversion HR; subst. constructor.
    + inversion HR as [|? p1' ? l' R1 HR']; subst. inversion HR'; subst. constructor; [now apply Rin_Rout|constructor].
    + inversion HR as [|? p1' ? l' R1 HR']; subst. inversion HR' as [|? p2' ? rest' R2 HR'']; subst.
      inversion HP as [|? s1 ? ? Hp1 HP']; subst. inversion HP' as [|? s2 ? srest Hp2 HP'']; subst.
      change (fold_list (p1 :: p2 :: rest)) with (if foldable p1 p2 then fold_pair p1 p2 :: fold_list rest else p1 :: fold_list (p2 :: rest)).
      change (fold_list (p1' :: p2' :: rest')) with (if foldable p1' p2' then fold_pair p1' p2' :: fold_list rest' else p1' :: fold_list (p2' :: rest')).
      rewrite (foldable_Rin k p1 p2 p1' p2' R1 R2). destruct (foldable p1 p2) eqn:Ef.
      * constructor; [|apply (IH rest rest' srest); [cbn [length] in Hlen; lia|exact HP''|exact HR'']].
        destruct R1 as [->|(_ & _ & Hc)].
        -- now apply (fold_pair_Rout k p1 p2 p2' s1 s2).
        -- exfalso. unfold foldable in Ef. unfold is_catchall in Hc. destruct (p_type p1); cbn [andb] in Ef; discriminate.
      * constructor; [now apply Rin_Rout|]. apply (IH (p2 :: rest) (p2' :: rest') (s2 :: srest)); [cbn [length] in *; lia|exact HP'|exact HR'].
Qed.

Lemma Forall2_len {A B} (P : A -> B -> Prop) l l' : Forall2 P l l' -> length l = length l'.
Proof. induction 1; cbn [length]; congruence. Qed.

(* ---------- the whole object ---------- *)

Theorem from_text_shift_general k t gs ps : groups t = Ok gs -> from_text t = Ok ps ->
  exists ps', from_text (repeat 10 k ++ t) = Ok ps' /\ Forall2 (Rout (N.of_nat k)) ps ps'.
Proof.
  intros Eg H. unfold from_text in *. rewrite groups_shift, Eg. rewrite Eg in H. cbn [rmap bind] in *. unfold from_groups in *.
  rewrite mapM_shift. destruct (mapM _ gs) as [ps0|e] eqn:E; cbn [rmap bind] in *; [|discriminate]. apply Ok_inj in H.
  assert (F2 : Forall2 (fun g p => from_fields (classify g) g = Ok p) gs ps0) by (eapply mapM_shape; [|exact E]; auto).
  set (segs0 := map (fun g => map range_of (live g)) gs).
  assert (HF : Forall2 FB ps0 segs0).
  { unfold segs0. clear -F2. induction F2 as [|g p gs ps Hp _ IH]; cbn [map]; constructor; [|exact IH]. eapply from_fields_FB; exact Hp. }
  destruct (text_ranges_chain t gs Eg) as [HG _].
  assert (EG : concat segs0 = map range_of (all_live gs)).
  { unfold segs0, all_live. rewrite flat_map_concat_map, concat_map, map_map. reflexivity. }
  rewrite <- EG in HG.
  destruct (merge_unknown_PI (length ps0) ps0 segs0 HF HG) as (s1 & HP1 & _).
  pose proof (merge_unknown_Rin (N.of_nat k) (length ps0) ps0 segs0 HF) as HR.
  rewrite map_length. set (m := merge_unknown (length ps0) ps0) in *. set (m' := merge_unknown (length ps0) (map (shift_para (N.of_nat k)) ps0)) in *.
  eexists. split; [reflexivity|]. subst ps. unfold fold_license.
  assert (El : length m' = length m) by (symmetry; eapply Forall2_len; exact HR). rewrite El.
  destruct (Nat.leb (length m) 2).
  - clear -HR. induction HR; constructor; [now apply Rin_Rout|assumption].
  - now apply (fold_list_Rout (N.of_nat k) (length m) m m' s1).
Qed.
