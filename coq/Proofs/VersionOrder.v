(* C01/C02 at the level of Version objects and version strings. *)
From Coq Require Import String.
From Coq Require Import NArith ZArith List Bool Lia Sorted.
From DI Require Import Result PyStr PyStrFacts Version Dpkg Policy OrderFacts VersionFacts ParseFacts.
Import ListNotations.
Open Scope N_scope.

Lemma cmp_pullback {A B} (f : A -> B) (cmp : B -> B -> comparison) :
  CmpOK cmp -> CmpOK (fun a b => cmp (f a) (f b)).
Proof.
  intros H. constructor.
  - intros a b. apply (cmp_antisym cmp H).
  - intros a b c. apply (cmp_eq_l cmp H).
  - intros a b c. apply (cmp_lt_trans cmp H).
Qed.

Definition vkey (v : version) : N * (list block * list block) :=
  (epoch v, (key (upstream v), key (revision v))).

Definition kcmp := cmp_pair N.compare (cmp_pair cmp_key cmp_key).

(* the order on versions: epoch, then upstream key, then revision key *)
Definition vcmp (a b : version) : comparison := kcmp (vkey a) (vkey b).

Lemma vcmp_ok : CmpOK vcmp.
Proof.
  apply (cmp_pullback vkey kcmp). apply cmp_pair_ok; [apply N_compare_ok|].
  apply cmp_pair_ok; apply cmp_key_ok.
Qed.

Definition wfv (v : version) : Prop := allowed (upstream v) /\ allowed (revision v).

Lemma Z_of_cmp_opp c : Z_of_cmp (CompOpp c) = (- Z_of_cmp c)%Z.
Proof. destruct c; reflexivity. Qed.

Theorem cvo_vcmp a b :
  wfv a -> wfv b -> compare_version_objects a b = Ok (Z_of_cmp (vcmp a b)).
Proof.
  intros [Au Ar] [Bu Br]. unfold compare_version_objects, vcmp, kcmp, cmp_pair, vkey. cbn [fst snd].
  destruct (epoch a ?= epoch b) eqn:Ee.
  - apply N.compare_eq in Ee. rewrite Ee, N.ltb_irrefl.
    rewrite (compare_strings_key _ _ Au Bu). cbn [bind]. rewrite Z_of_cmp_eq0.
    destruct (cmp_key (key (upstream a)) (key (upstream b))); cbn [negb]; try reflexivity.
    rewrite <- (compare_strings_key _ _ Ar Br).
    destruct (revision a) as [|c r] eqn:Ea; [|reflexivity].
    destruct (revision b) as [|c' r'] eqn:Eb; reflexivity.
  - apply N.compare_lt_iff in Ee. apply N.ltb_lt in Ee. now rewrite Ee.
  - apply N.compare_gt_iff in Ee. assert (E1 : epoch a <? epoch b = false) by (apply N.ltb_ge; lia).
    apply N.ltb_lt in Ee. now rewrite E1, Ee.
Qed.

Lemma from_string_wfv s v : from_string s = Ok v -> wfv v.
Proof. apply from_string_allowed. Qed.

Theorem compare_versions_vcmp a b va vb :
  from_string a = Ok va -> from_string b = Ok vb ->
  compare_versions a b = Ok (Z_of_cmp (vcmp va vb)).
Proof.
  intros Ha Hb. unfold compare_versions. rewrite Ha, Hb. cbn [bind].
  apply cvo_vcmp; eapply from_string_wfv; eassumption.
Qed.

(* ---------- the order laws ---------- *)

Section Laws.
  Variables a b c : version.
  Hypotheses (Wa : wfv a) (Wb : wfv b) (Wc : wfv c).

  Lemma law_result_range : exists r, compare_version_objects a b = Ok r /\ (r = -1 \/ r = 0 \/ r = 1)%Z.
  Proof. rewrite (cvo_vcmp a b Wa Wb). eexists. split; [reflexivity|]. destruct (vcmp a b); simpl; auto. Qed.

  Lemma law_antisym : exists r, compare_version_objects a b = Ok r /\ compare_version_objects b a = Ok (- r)%Z.
  Proof.
    rewrite (cvo_vcmp a b Wa Wb), (cvo_vcmp b a Wb Wa). eexists. split; [reflexivity|].
    rewrite (cmp_antisym vcmp vcmp_ok a b), Z_of_cmp_opp. now rewrite Z.opp_involutive.
  Qed.

  Lemma law_refl : compare_version_objects a a = Ok 0%Z.
  Proof. rewrite (cvo_vcmp a a Wa Wa). now rewrite (cmp_refl vcmp_ok a). Qed.

  Lemma Z_of_cmp_le c0 : (Z_of_cmp c0 <= 0)%Z <-> c0 <> Gt.
  Proof. destruct c0; simpl; split; intros; try lia; try congruence. Qed.
  Lemma Z_of_cmp_lt c0 : (Z_of_cmp c0 < 0)%Z <-> c0 = Lt.
  Proof. destruct c0; simpl; split; intros; try lia; try congruence. Qed.
  Lemma Z_of_cmp_eq c0 : (Z_of_cmp c0 = 0)%Z <-> c0 = Eq.
  Proof. destruct c0; simpl; split; intros; try lia; try congruence. Qed.

  Lemma law_trans_le r1 r2 :
    compare_version_objects a b = Ok r1 -> compare_version_objects b c = Ok r2 ->
    (r1 <= 0)%Z -> (r2 <= 0)%Z ->
    exists r3, compare_version_objects a c = Ok r3 /\ (r3 <= 0)%Z /\
               ((r1 < 0 \/ r2 < 0)%Z -> (r3 < 0)%Z) /\ ((r1 = 0 /\ r2 = 0)%Z -> r3 = 0%Z).
  Proof.
    rewrite (cvo_vcmp a b Wa Wb), (cvo_vcmp b c Wb Wc), (cvo_vcmp a c Wa Wc).
    intros E1 E2. inversion E1; subst r1. inversion E2; subst r2. clear E1 E2.
    intros H1' H2'. pose proof (proj1 (Z_of_cmp_le _) H1') as H1. pose proof (proj1 (Z_of_cmp_le _) H2') as H2.
    eexists. split; [reflexivity|].
    split; [apply (proj2 (Z_of_cmp_le _)); exact (cmp_le_trans vcmp_ok a b c H1 H2)|]. split.
    - intros [H|H]; apply (proj1 (Z_of_cmp_lt _)) in H; apply (proj2 (Z_of_cmp_lt _));
        [exact (cmp_lt_le_trans vcmp_ok a b c H H2)|exact (cmp_le_lt_trans vcmp_ok a b c H1 H)].
    - intros [H3 H4]. apply (proj1 (Z_of_cmp_eq _)) in H3. apply (proj1 (Z_of_cmp_eq _)) in H4.
      apply (proj2 (Z_of_cmp_eq _)). rewrite (cmp_eq_l vcmp vcmp_ok a b c H3). exact H4.
  Qed.
End Laws.

(* the operators and constraint operators agree with the three-way result *)
Lemma ops_agree a b r :
  compare_version_objects a b = Ok r ->
  v_lt a b = Ok (r <? 0)%Z /\ v_le a b = Ok (r <=? 0)%Z /\
  v_gt a b = Ok (r >? 0)%Z /\ v_ge a b = Ok (r >=? 0)%Z /\
  eval_constraint_obj a (lit "<<") b = Ok (r <? 0)%Z /\
  eval_constraint_obj a (lit "<=") b = Ok (r <=? 0)%Z /\
  eval_constraint_obj a (lit "<") b = Ok (r <=? 0)%Z /\
  eval_constraint_obj a (lit "=") b = Ok (r =? 0)%Z /\
  eval_constraint_obj a (lit ">=") b = Ok (r >=? 0)%Z /\
  eval_constraint_obj a (lit ">") b = Ok (r >=? 0)%Z /\
  eval_constraint_obj a (lit ">>") b = Ok (r >? 0)%Z.
Proof.
  intros H. unfold v_lt, v_le, v_gt, v_ge, eval_constraint_obj. rewrite H. cbn [bind].
  repeat split; reflexivity.
Qed.

(* an operator outside the table raises ValueError (after the comparison) *)
Lemma unknown_op a b r o :
  compare_version_objects a b = Ok r -> parse_op o = None -> eval_constraint_obj a o b = Raise ValueError.
Proof. intros H Ho. unfold eval_constraint_obj. now rewrite H, Ho. Qed.

Lemma trichotomy a b r :
  compare_version_objects a b = Ok r -> (r = -1 \/ r = 0 \/ r = 1)%Z ->
  (v_lt a b = Ok true /\ v_gt a b = Ok false /\ r <> 0%Z) \/
  (v_lt a b = Ok false /\ v_gt a b = Ok true /\ r <> 0%Z) \/
  (v_lt a b = Ok false /\ v_gt a b = Ok false /\ r = 0%Z).
Proof.
  intros H Hr. destruct (ops_agree a b r H) as (H1 & _ & H3 & _). rewrite H1, H3.
  destruct Hr as [ -> | [ -> | -> ] ]; [left|right; right|right; left]; repeat split; discriminate.
Qed.

(* == is structural: equal versions are the same triple, hence order-equal and, for
   any hash function of the triple, hash alike *)
Lemma version_eqb_eq a b : version_eqb a b = true -> a = b.
Proof.
  destruct a as [e1 u1 r1], b as [e2 u2 r2]. unfold version_eqb. cbn [epoch upstream revision].
  intros H. apply andb_true_iff in H as [H H3]. apply andb_true_iff in H as [H1 H2].
  apply N.eqb_eq in H1. apply str_eqb_eq in H2, H3. now subst.
Qed.

Lemma eq_implies_order_equal_and_hash {H : Type} (hash : N * str * str -> H) a b :
  wfv a -> version_eqb a b = true ->
  compare_version_objects a b = Ok 0%Z /\
  hash (epoch a, upstream a, revision a) = hash (epoch b, upstream b, revision b).
Proof. intros Wa E. apply version_eqb_eq in E. subst b. split; [now apply law_refl|reflexivity]. Qed.

(* sorting: a list whose adjacent elements are not inverted under < is
   non-decreasing under the three-way comparison at every pair of positions *)
Definition vle (a b : version) : Prop := vcmp a b <> Gt.

Lemma sorted_all_pairs (l : list version) : Sorted vle l -> StronglySorted vle l.
Proof.
  apply Sorted_StronglySorted. intros x y z. unfold vle. apply (cmp_le_trans vcmp_ok).
Qed.

Lemma not_lt_is_le a b : wfv a -> wfv b -> v_lt b a = Ok false -> vle a b.
Proof.
  intros Wa Wb H. unfold vle. intros Hgt.
  destruct (ops_agree b a _ (cvo_vcmp b a Wb Wa)) as (H1 & _). rewrite H1 in H.
  apply (cmp_gt_lt vcmp_ok) in Hgt. rewrite Hgt in H. discriminate.
Qed.
