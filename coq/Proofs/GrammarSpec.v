(* Proofs for C13: every document of the DEP-5 grammar (Spec below) gives an object whose paragraphs
   satisfy spec_good - so the whole render / parse / render statement holds for it. *)
From Coq Require Import String.
From Coq Require Import Arith NArith List Bool Lia.
From DI Require Import Result PyStr PyStrFacts Codec CodecFacts Deb822 Deb822Facts BlankFacts Debcon DebconFacts Copyright CopyrightFacts
  Grammar822 Grammar822Facts Grammar822Header DepsParseFacts ReadbackFacts Dep5Facts WordFacts ConserveFacts RenderFacts FromDictFacts
  RoundTripFacts FixpointFacts SpecCheck ClassFacts.
Import ListNotations.
Open Scope N_scope.

(* ---------- words ---------- *)

Lemma split_ws_aux_nil s : forall cur, split_ws_aux cur s = [] -> cur = [] /\ forallb is_space s = true.
Proof.
  induction s as [|x s IH]; intros cur H; cbn [split_ws_aux] in H.
  - destruct cur; [now split|discriminate].
  - cbn [forallb]. destruct (is_space x) eqn:E.
    + destruct cur; [|discriminate]. destruct (IH [] H) as [_ H2]. now split.
    + destruct (IH (x :: cur) H) as [C _]. discriminate.
Qed.

Lemma nonblank_words s : all_space s = false -> words s <> [].
Proof. intros H E. unfold words, split_ws in E. apply split_ws_aux_nil in E as [_ E]. unfold all_space in H. congruence. Qed.

(* ---------- the values of the grammar ---------- *)

Definition gkey (g : gfield) : str := fname_of (gf_name g).
Definition gvalue (g : gfield) : str := join [10] (gf_first g :: gf_conts g).

(* a field of the grammar: well formed, with a value on its first line, no line-break character inside a line *)
Definition gfield_ok (g : gfield) : Prop :=
  wf_gfield g /\ gf_first g <> [] /\ Forall nolb (gf_first g :: gf_conts g).

(* what its class asks of the value of a typed field *)
Definition gclass (c : fclass) (g : gfield) : Prop :=
  match c with
  | FSingle => gf_conts g = []
  | FLineSep | FWS | FCopyright => True
  | FFormatted => Forall gcont (gf_conts g) /\ last (gf_first g :: gf_conts g) [0] <> [SP; DOT]
  | FLicense => gf_conts g = [] \/
                exists b0 rest, gf_conts g = (SP :: b0) :: rest /\ b0 <> [] /\ strip b0 = b0 /\ nolb b0 /\
                                Forall gcont rest /\ last (b0 :: rest) [0] <> [SP; DOT]
  end.

Lemma gfield_lines g : gfield_ok g ->
  glines (gf_first g :: gf_conts g) /\ Forall (fun l => words l <> []) (gf_first g :: gf_conts g).
Proof.
  intros ((_ & _ & Hs & _ & Hc & _) & Hne & Hnl).
  assert (Hw : Forall (fun l => words l <> []) (gf_first g :: gf_conts g)).
  { constructor; [apply nonblank_words; now apply stripped_nonblank|]. eapply Forall_impl; [|exact Hc]. intros c (Hcont & _).
    apply nonblank_words. apply (is_cont_facts c Hcont). }
  split; [|exact Hw]. split; [discriminate|]. split; [exact Hnl|].
  destruct (gf_conts g) as [|c1 cs] eqn:Ec; [exact Hne|]. change (last (gf_first g :: c1 :: cs) [0]) with (last (c1 :: cs) [0]).
  destruct (exists_last (l := c1 :: cs)) as (pre & z & E); [discriminate|]. rewrite E, last_last. intros Ez. subst z.
  rewrite E in Hc. apply Forall_app in Hc as [_ Hz]. inversion Hz as [|? ? [Hcz _] _]; subst. discriminate Hcz.
Qed.

Lemma gvalue_renderable g : gfield_ok g -> renderable (gvalue g).
Proof.
  intros ((_ & _ & Hs & He0 & Hc & _) & Hne & Hnl). unfold gvalue. apply renderable_join; [exact Hne|exact Hs| |].
  - eapply Forall_impl; [|exact Hnl]. intros l Hl. now apply nolb_no_eol.
  - eapply Forall_impl; [|exact Hc]. now intros c (A & B & _).
Qed.

Lemma RP_nil c : RP c [] = [].
Proof. destruct c; vm_compute; reflexivity. Qed.

(* the typed value of a field of the grammar renders to a renderable value and is stable *)
Theorem gclass_ok c g : gfield_ok g -> gclass c g ->
  renderable (RP c (gvalue g)) /\ RP c (RP c (gvalue g)) = RP c (gvalue g).
Proof.
  intros Hg Hc. pose proof Hg as ((_ & _ & Hs & _ & Hconts & _) & Hne & Hnl). destruct (gfield_lines g Hg) as [Hgl Hw]. unfold gvalue.
  destruct c; cbn [gclass] in Hc.
  - (* single line *) rewrite Hc. cbn [join]. inversion Hnl as [|? ? Hn0 _]; subst. destruct (nolb_no_eol _ Hn0) as [A B]. split.
    + apply single_renderable; [now rewrite Hs|exact A|exact B].
    + apply single_rp_stable.
  - (* line list *) split; [now apply linesep_renderable|]. apply linesep_rp_stable. rewrite (glines_splitlines _ Hgl). now rewrite Hs.
  - (* white-space list *) split; [|apply ws_rp_stable]. apply ws_renderable. fold (words (join [10] (gf_first g :: gf_conts g))).
    rewrite words_join by (discriminate || reflexivity). inversion Hw as [|? ? H0 _]; subst. intros E. apply app_eq_nil in E as [E _]. contradiction.
  - (* formatted *) destruct Hc as [Hgc Hl]. inversion Hnl as [|? ? Hn0 _]; subst.
    change [10] with [LF]. rewrite !formatted_identity by assumption. split; [|reflexivity].
    apply (gvalue_renderable g Hg).
  - (* copyright *) split; [|apply copyright_rp_stable; now rewrite (glines_splitlines _ Hgl)].
    apply copyright_renderable; rewrite (glines_splitlines _ Hgl); [discriminate|exact Hw].
  - (* license *) inversion Hnl as [|? ? Hn0 _]; subst. destruct Hc as [E|(b0 & rest & E & H1 & H2 & H3 & H4 & H5)].
    + rewrite E. cbn [join]. rewrite !license_name_only by assumption. split; [|reflexivity].
      pose proof (gvalue_renderable g Hg) as R. unfold gvalue in R. now rewrite E in R.
    + rewrite E. change [10] with [LF]. rewrite !license_identity by assumption. split; [|reflexivity].
      pose proof (gvalue_renderable g Hg) as R. unfold gvalue in R. now rewrite E in R.
Qed.

(* ---------- names ---------- *)

Lemma lower_name_char c : is_ascii_alnum c = true \/ c = 45 -> key_char (lower_ascii_char c) = true /\ lower_ascii_char c <> 95.
Proof.
  intros [H|E45]; [|subst c; split; [reflexivity|discriminate]].
  unfold lower_ascii_char. destruct (is_ascii_upper c) eqn:Eu.
  - unfold is_ascii_upper in Eu. apply andb_true_iff in Eu as [A B]. apply N.leb_le in A, B. split; [|lia].
    unfold key_char, is_ascii_lower. assert (E1 : (97 <=? c + 32) = true) by (apply N.leb_le; lia). assert (E2 : (c + 32 <=? 122) = true) by (apply N.leb_le; lia). now rewrite E1, E2.
  - unfold is_ascii_alnum, is_ascii_alpha in H. rewrite Eu in H. cbn [orb] in H. split.
    + unfold key_char. apply orb_true_iff in H as [H|H]; rewrite H; [reflexivity|rewrite orb_true_r; reflexivity].
    + unfold is_ascii_lower, is_ascii_digit in H. apply orb_true_iff in H as [H|H]; apply andb_true_iff in H as [A B]; apply N.leb_le in A, B; lia.
Qed.

Lemma lower_alpha_char c : is_ascii_alpha c = true -> is_ascii_lower (lower_ascii_char c) = true.
Proof.
  intros H. unfold lower_ascii_char. destruct (is_ascii_upper c) eqn:Eu.
  - unfold is_ascii_upper in Eu. apply andb_true_iff in Eu as [A B]. apply N.leb_le in A, B. unfold is_ascii_lower.
    assert (E1 : (97 <=? c + 32) = true) by (apply N.leb_le; lia). assert (E2 : (c + 32 <=? 122) = true) by (apply N.leb_le; lia). now rewrite E1, E2.
  - unfold is_ascii_alpha in H. rewrite Eu in H. exact H.
Qed.

Lemma lower_name_key n : name_ok n -> rb_key (lower_ascii n) /\ ~ In 95 (lower_ascii n).
Proof.
  unfold name_ok. destruct n as [|c r]; [intros []|]. intros [Hc Hall]. split.
  - unfold rb_key, lower_ascii. cbn [map]. split; [now apply lower_alpha_char|]. unfold key_word.
    change (lower_ascii_char c :: map lower_ascii_char r) with (map lower_ascii_char (c :: r)). rewrite Forall_map.
    eapply Forall_impl; [|exact Hall]. intros x Hx. now apply lower_name_char.
  - unfold lower_ascii. intros Hin. apply in_map_iff in Hin as (x & Ex & Hx). rewrite Forall_forall in Hall. destruct (lower_name_char x (Hall x Hx)) as [_ Hn]. congruence.
Qed.

Lemma expected_name_key n : name_ok n ->
  rb_key (expected_name n) /\ ~ In 95 (expected_name n) /\ str_eqb (expected_name n) (lit "licence") = false.
Proof.
  intros Hn. unfold expected_name. destruct (lower_name_key n Hn) as [Hk H95]. destruct (str_eqb (lower_ascii n) (lit "licence")) eqn:E.
  - split; [|split; [|reflexivity]].
    + vm_compute. split; [reflexivity|]. repeat constructor.
    + intros Hin. vm_compute in Hin. repeat (destruct Hin as [Hin|Hin]; [discriminate Hin|]). exact Hin.
  - split; [exact Hk|]. split; [exact H95|exact E].
Qed.

Lemma replace_back e : ~ In 95 e -> replace_char 95 45 (replace_char 45 95 e) = e.
Proof.
  unfold replace_char. rewrite map_map. intros H. rewrite (map_ext_in _ (fun c => c)); [apply map_id|].
  intros c Hc. destruct (N.eqb_spec c 45) as [->|Hn]; [reflexivity|]. destruct (N.eqb_spec c 95) as [->|_]; [contradiction|reflexivity].
Qed.

Lemma replace_no45 e : ~ In 45 (replace_char 45 95 e).
Proof.
  unfold replace_char. intros Hin. apply in_map_iff in Hin as (c & E & _). destruct (N.eqb_spec c 45); [discriminate|congruence].
Qed.

Theorem grammar_name_ok n : name_ok n ->
  name_ok (rname (fname_of n)) /\ fname_of (rname (fname_of n)) = fname_of n /\ ~ In 45 (fname_of n).
Proof.
  intros Hn. destruct (expected_name_key n Hn) as (Hk & H95 & Hlic). unfold fname_of at 1 3 4. unfold rname. rewrite (replace_back _ H95).
  destruct (normalize_key _ Hk) as [El Hok]. split; [exact Hok|]. split; [|apply replace_no45].
  unfold fname_of, expected_name at 1. rewrite El, Hlic. reflexivity.
Qed.

(* ---------- one paragraph of the grammar ---------- *)

Record dep5_para (t : ptype) (G : gpara) : Prop := {
  dp_fields : Forall gfield_ok G;
  dp_nodup : NoDup (map gkey G);
  dp_nocatch : t <> PCatchAll;
  dp_type : classify (expected_para 1 G) = t;
  dp_class : forall g c, In g G -> In (gkey g, c) (known_fields t) -> gclass c g;
}.

Definition gpairs (G : gpara) : pydict str := map (fun g => (gkey g, gvalue g)) G.
Definition Kof (t : ptype) (G : gpara) : pydict str := filter (fun kv => known_name t (fst kv)) (gpairs G).
Definition Eof (t : ptype) (G : gpara) : pydict str := filter (fun kv => negb (known_name t (fst kv))) (gpairs G).

Lemma pairs_of_expected G : Forall gfield_ok G -> forall n, map pair_of (expected_para n G) = gpairs G.
Proof.
  induction 1 as [|g G Hg _ IH]; intros n; [reflexivity|]. cbn [expected_para map gpairs]. fold (gpairs G). rewrite IH. f_equal.
  unfold pair_of, fvalue. rewrite expected_field_text. fold (gvalue g). f_equal.
  apply (renderable_lstrip _ (gvalue_renderable g Hg)).
Qed.

Lemma live_expected G : Forall gfield_ok G -> forall n, live (expected_para n G) = expected_para n G.
Proof.
  intros HG n. unfold live. apply filter_all. revert n. induction HG as [|g G Hg _ IH]; intros n; [constructor|]. cbn [expected_para]. constructor; [|apply IH].
  rewrite expected_field_text. fold (gvalue g). destruct (renderable_head _ (gvalue_renderable g Hg)) as (c & r & -> & _). reflexivity.
Qed.

Lemma classify_any_n G n m : classify (expected_para n G) = classify (expected_para m G).
Proof. apply classify_names, expected_para_names. Qed.

Lemma kroute_known t k : t <> PCatchAll -> kroute t (all_extra t) k = known_name t k.
Proof. intros _. unfold kroute, all_extra. destruct t; reflexivity. Qed.

Theorem spec_of_grammar_para t G n : dep5_para t G ->
  exists L, spec_of_group (expected_para n G) = Ok (mkSpec t (Kof t G) (Eof t G) L).
Proof.
  intros H. set (fs := expected_para n G). pose proof (dp_fields _ _ H) as HG.
  assert (Et : classify fs = t) by (subst fs; rewrite (classify_any_n G n 1); apply (dp_type _ _ H)).
  assert (El : live fs = fs) by (apply live_expected; exact HG).
  assert (Ep : map pair_of fs = gpairs G) by (apply pairs_of_expected; exact HG).
  assert (Hnd : NoDup (map fname (live fs))).
  { rewrite El. replace (map fname fs) with (map fst (map pair_of fs)) by (rewrite map_map; reflexivity). rewrite Ep. unfold gpairs. rewrite map_map. apply (dp_nodup _ _ H). }
  unfold spec_of_group. rewrite Et.
  rewrite add_fields_distinct; cbn [b_known b_extra b_lines b_seen]; try assumption; try (intros x []); [|intros f _ []].
  cbn [bind app]. eexists. f_equal. f_equal.
  - cbn [b_known]. rewrite El. change (map (fun f => (fname f, fvalue f))) with (map pair_of).
    rewrite (filter_ext _ (fun f => (fun k => known_name t k) (fst (pair_of f)))) by (intros f; rewrite route_is_kroute; change (fst (pair_of f)) with (fname f); apply kroute_known, (dp_nocatch _ _ H)).
    rewrite (filter_map_pairs pair_of (fun k => known_name t k)), Ep. reflexivity.
  - cbn [b_extra]. rewrite El. change (map (fun f => (fname f, fvalue f))) with (map pair_of).
    rewrite (filter_ext _ (fun f => (fun k => negb (known_name t k)) (fst (pair_of f)))) by (intros f; rewrite route_is_kroute; change (fst (pair_of f)) with (fname f); cbv beta; f_equal; apply kroute_known, (dp_nocatch _ _ H)).
    rewrite (filter_map_pairs pair_of (fun k => negb (known_name t k))), Ep. reflexivity.
Qed.

Lemma keys_gpairs G : keys (gpairs G) = map gkey G.
Proof. unfold keys, gpairs. rewrite map_map. reflexivity. Qed.

Lemma NoDup_keys_filter (P : str * str -> bool) (d : pydict str) : NoDup (keys d) -> NoDup (keys (filter P d)).
Proof.
  unfold keys. induction d as [|kv d IH]; [constructor|]. cbn [map filter]. intros H. inversion H as [|? ? Hni Hnd]; subst.
  destruct (P kv); [|now apply IH]. cbn [map]. constructor; [|now apply IH].
  intros Hi. apply Hni. apply in_map_iff in Hi as (x & Ex & Hx). apply filter_In in Hx as [Hx _]. rewrite <- Ex. now apply in_map.
Qed.

Lemma known_names_ok t : Forall (fun kf : str * fclass => name_ok (rname (fst kf)) /\ fname_of (rname (fst kf)) = fst kf) (known_fields t).
Proof. destruct t; cbn [known_fields]; repeat (constructor; [split; [apply name_okb_ok; vm_compute; reflexivity|vm_compute; reflexivity]|]); constructor. Qed.

Lemma lookup_unique k v (d : pydict str) : NoDup (keys d) -> In (k, v) d -> lookup k d = v.
Proof.
  induction d as [|[a x] d IH]; [intros _ []|]. cbn [keys map fst]. intros Hnd Hin. inversion Hnd as [|? ? Hni Hnd']; subst. rewrite lookup_cons.
  destruct Hin as [Heq|Hin]; [inversion Heq; subst; now rewrite str_eqb_refl|].
  destruct (str_eqb k a) eqn:E0; [apply str_eqb_eq in E0; subst; exfalso; apply Hni; now apply (in_map fst) in Hin|]. now apply IH.
Qed.

Lemma nonempty_has {A} (l : list A) : l <> [] -> exists x, In x l.
Proof. destruct l as [|x l]; [contradiction|]. intros _. exists x. now left. Qed.

Section Para.
Variables (t : ptype) (G : gpara).
Hypothesis H : dep5_para t G.
Let K := Kof t G.
Let E := Eof t G.

Lemma ndK : NoDup (keys K).
Proof. apply NoDup_keys_filter. rewrite keys_gpairs. apply (dp_nodup _ _ H). Qed.

Lemma ndE : NoDup (keys E).
Proof. apply NoDup_keys_filter. rewrite keys_gpairs. apply (dp_nodup _ _ H). Qed.

Lemma in_K kv : In kv K -> exists g, In g G /\ kv = (gkey g, gvalue g) /\ known_name t (gkey g) = true.
Proof.
  intros Hin. apply filter_In in Hin as [Hin Hk]. unfold gpairs in Hin. apply in_map_iff in Hin as (g & <- & Hg). exists g. now repeat split.
Qed.

Lemma in_E kv : In kv E -> exists g, In g G /\ kv = (gkey g, gvalue g) /\ known_name t (gkey g) = false.
Proof.
  intros Hin. apply filter_In in Hin as [Hin Hk]. unfold gpairs in Hin. apply in_map_iff in Hin as (g & <- & Hg). exists g. repeat split; [exact Hg|]. now apply negb_true_iff in Hk.
Qed.

(* the value stored for a known name: that of the field of the paragraph with that name, or nothing *)
Lemma kd_entry k c : In (k, c) (known_fields t) ->
  (exists g, In g G /\ gkey g = k /\ lookup k K = gvalue g /\ gclass c g /\ gfield_ok g) \/ lookup k K = [].
Proof.
  intros Hkc. destruct (mem_str k (keys K)) eqn:Em.
  - left. apply mem_str_In in Em. unfold keys in Em. apply in_map_iff in Em as ([k' v] & Ek & Hin). cbn [fst] in Ek. subst k'.
    destruct (in_K _ Hin) as (g & Hg & Ekv & _). inversion Ekv; subst. exists g. split; [exact Hg|]. split; [reflexivity|]. split.
    + apply lookup_unique; [exact ndK|exact Hin].
    + split; [now apply (dp_class _ _ H g c)|]. pose proof (dp_fields _ _ H) as HG. rewrite Forall_forall in HG. now apply HG.
  - right. apply lookup_absent. intros Hi. apply mem_str_In in Hi. congruence.
Qed.

Theorem grammar_para_ok : para_ok t K E.
Proof.
  pose proof (dp_fields _ _ H) as HG. rewrite Forall_forall in HG. constructor.
  - split; [exact ndE|]. intros k Hk. unfold keys in Hk. apply in_map_iff in Hk as (kv & <- & Hin). destruct (in_E _ Hin) as (g & Hg & -> & Hun). cbn [fst].
    split; [exact Hun|]. destruct (HG g Hg) as ((Hn & _) & _). apply (grammar_name_ok _ Hn).
  - apply Forall_forall. intros kv Hin. destruct (in_E _ Hin) as (g & Hg & -> & _). cbn [snd]. apply (renderable_lstrip _ (gvalue_renderable g (HG g Hg))).
  - unfold KD. rewrite Forall_map. apply Forall_forall. intros [k c] Hkc. cbn [fst snd]. intros Hsp.
    destruct (kd_entry k c Hkc) as [(g & Hg & Ek & El & Hc & Hok)|El]; rewrite El.
    + exfalso. rewrite El in Hsp. destruct (gclass_ok c g Hok Hc) as [Hr _]. destruct (renderable_lstrip _ Hr) as (_ & Hns & _). congruence.
    + apply RP_nil.
  - unfold live_items, items. rewrite filter_app, Forall_app. split.
    + apply Forall_forall. intros kv Hin. apply filter_In in Hin as [Hin Hlive]. unfold KD in Hin. apply in_map_iff in Hin as ([k c] & <- & Hkc). cbn [fst snd] in *.
      pose proof (known_names_ok t) as Hnames. rewrite Forall_forall in Hnames. destruct (Hnames _ Hkc) as [N1 N2]. cbn [fst] in N1, N2.
      destruct (kd_entry k c Hkc) as [(g & Hg & Ek & El & Hc & Hok)|El].
      * rewrite El. split; [apply (gclass_ok c g Hok Hc)|now split].
      * exfalso. unfold is_live in Hlive. cbn [snd] in Hlive. rewrite El, RP_nil in Hlive. discriminate.
    + apply Forall_forall. intros kv Hin. apply filter_In in Hin as [Hin _]. destruct (in_E _ Hin) as (g & Hg & -> & _). cbn [fst snd].
      split; [apply (gvalue_renderable g (HG g Hg))|]. destruct (HG g Hg) as ((Hn & _) & _). destruct (grammar_name_ok _ Hn) as (A & B & _). now split.
  - (* at least one value *)
    assert (Hne : G <> []).
    { intros EG. apply (dp_nocatch _ _ H). rewrite <- (dp_type _ _ H), EG. reflexivity. }
    destruct (nonempty_has G Hne) as (g0 & Hg0). pose proof (HG g0 Hg0) as Hok0.
    unfold live_items, items. rewrite filter_app. intros Hnil. apply app_eq_nil in Hnil as [Hk He].
    destruct (known_name t (gkey g0)) eqn:Ekn.
    + pose proof Ekn as Ekn'. apply known_name_In in Ekn. apply in_map_iff in Ekn as ([k c] & Ek & Hkc). cbn [fst] in Ek. subst k.
      assert (HinK : In (gkey g0, gvalue g0) K).
      { apply filter_In. split; [unfold gpairs; apply in_map_iff; exists g0; now split|exact Ekn']. }
      assert (El : lookup (gkey g0) K = gvalue g0) by (apply lookup_unique; [exact ndK|exact HinK]).
      assert (Hin : In (gkey g0, RP c (lookup (gkey g0) K)) (filter is_live (KD t K))).
      { apply filter_In. split; [unfold KD; apply in_map_iff; exists (gkey g0, c); split; [reflexivity|exact Hkc]|].
        unfold is_live. cbn [snd]. rewrite El. destruct (gclass_ok c g0 Hok0 (dp_class _ _ H g0 c Hg0 Hkc)) as [Hr _].
        destruct (renderable_lstrip _ Hr) as (_ & Hns & _). now rewrite Hns. }
      rewrite Hk in Hin. destruct Hin.
    + assert (Hin : In (gkey g0, gvalue g0) (filter is_live E)).
      { apply filter_In. split.
        - apply filter_In. split; [unfold gpairs; apply in_map_iff; exists g0; now split|]. cbn [fst]. now rewrite Ekn.
        - unfold is_live. cbn [snd]. destruct (renderable_lstrip _ (gvalue_renderable g0 Hok0)) as (_ & Hns & _). now rewrite Hns. }
      rewrite He in Hin. destruct Hin.
  - apply Forall_forall. intros [k c] Hkc. cbn [fst snd]. destruct (kd_entry k c Hkc) as [(g & Hg & Ek & El & Hc & Hok)|El]; rewrite El.
    + apply (gclass_ok c g Hok Hc).
    + now rewrite !RP_nil.
Qed.

(* every field of the paragraph is a live item, and every live item is a field of the paragraph *)
Lemma live_keys k : In k (keys (live_items t K E)) <-> In k (map gkey G).
Proof.
  pose proof (dp_fields _ _ H) as HG. rewrite Forall_forall in HG. unfold live_items, items. rewrite filter_app, keys_app. split.
  - intros Hin. apply in_app_or in Hin as [Hin|Hin]; unfold keys in Hin; apply in_map_iff in Hin as (kv & <- & Hkv); apply filter_In in Hkv as [Hkv Hlive].
    + unfold KD in Hkv. apply in_map_iff in Hkv as ([k0 c] & <- & Hkc). cbn [fst snd] in *.
      destruct (kd_entry k0 c Hkc) as [(g & Hg & Ek & _)|El]; [rewrite <- Ek; now apply in_map|].
      exfalso. unfold is_live in Hlive. cbn [snd] in Hlive. rewrite El, RP_nil in Hlive. discriminate.
    + destruct (in_E _ Hkv) as (g & Hg & -> & _). cbn [fst]. now apply in_map.
  - intros Hin. apply in_map_iff in Hin as (g & <- & Hg). pose proof (HG g Hg) as Hok. apply in_or_app.
    destruct (known_name t (gkey g)) eqn:Ekn.
    + left. pose proof Ekn as Ekn'. apply known_name_In in Ekn. apply in_map_iff in Ekn as ([k0 c] & Ek & Hkc). cbn [fst] in Ek. subst k0.
      assert (HinK : In (gkey g, gvalue g) K) by (apply filter_In; split; [unfold gpairs; apply in_map_iff; exists g; now split|exact Ekn']).
      assert (El : lookup (gkey g) K = gvalue g) by (apply lookup_unique; [exact ndK|exact HinK]).
      unfold keys. apply in_map_iff. exists (gkey g, RP c (lookup (gkey g) K)). split; [reflexivity|]. apply filter_In. split.
      * unfold KD. apply in_map_iff. exists (gkey g, c). now split.
      * unfold is_live. cbn [snd]. rewrite El. destruct (gclass_ok c g Hok (dp_class _ _ H g c Hg Hkc)) as [Hr _].
        destruct (renderable_lstrip _ Hr) as (_ & Hns & _). now rewrite Hns.
    + right. unfold keys. apply in_map_iff. exists (gkey g, gvalue g). split; [reflexivity|]. apply filter_In. split.
      * apply filter_In. split; [unfold gpairs; apply in_map_iff; exists g; now split|]. cbn [fst]. now rewrite Ekn.
      * unfold is_live. cbn [snd]. destruct (renderable_lstrip _ (gvalue_renderable g Hok)) as (_ & Hns & _). now rewrite Hns.
Qed.

End Para.

(* ---------- the type read off the rendered names ---------- *)

Lemma existsb_name_In (fs : list field) n : existsb (fun f => str_eqb (f_name f) n) fs = true <-> In n (map f_name fs).
Proof.
  rewrite existsb_exists. split.
  - intros (f & Hf & E). apply str_eqb_eq in E. subst n. now apply in_map.
  - intros Hin. apply in_map_iff in Hin as (f & <- & Hf). exists f. split; [exact Hf|apply str_eqb_refl].
Qed.

Lemma classify_set fs fs' : (forall x, In x (map f_name fs) <-> In x (map f_name fs')) -> classify fs = classify fs'.
Proof.
  intros Hs. unfold classify.
  assert (G : forall n, existsb (fun f => str_eqb (f_name f) n) fs = existsb (fun f => str_eqb (f_name f) n) fs').
  { intros n. destruct (existsb _ fs) eqn:E1, (existsb _ fs') eqn:E2; try reflexivity.
    - apply existsb_name_In in E1. apply Hs in E1. apply existsb_name_In in E1. congruence.
    - apply existsb_name_In in E2. apply Hs in E2. apply existsb_name_In in E2. congruence. }
  now rewrite !G.
Qed.

Lemma expected_para_fnames Gs : forall n, map f_name (expected_para n Gs) = map (fun g => expected_name (gf_name g)) Gs.
Proof. induction Gs as [|g Gs IH]; intros n; [reflexivity|]. cbn [expected_para map expected_field f_name]. now rewrite IH. Qed.

(* the name a key is parsed back under *)
Lemma key_back e : ~ In 95 e -> replace_char 95 45 (replace_char 45 95 e) = e.
Proof. apply replace_back. Qed.

Theorem grammar_spec_good t G L : dep5_para t G -> spec_good (mkSpec t (Kof t G) (Eof t G) L).
Proof.
  intros H. pose proof (grammar_para_ok t G H) as Hok. split; [exact Hok|]. split; [apply (dp_nocatch _ _ H)|].
  intros n. unfold srendered. cbn [s_type s_known s_extra]. transitivity (classify (expected_para 1 G)); [|apply (dp_type _ _ H)]. apply classify_set. intros x.
  rewrite !expected_para_fnames. unfold rendered. rewrite map_map. cbn [gf_of gf_name].
  pose proof (dp_fields _ _ H) as HG. rewrite Forall_forall in HG.
  pose proof (po_live _ _ _ Hok) as HL. rewrite Forall_forall in HL.
  split.
  - intros Hin. apply in_map_iff in Hin as (kv & <- & Hkv). destruct (HL kv Hkv) as (_ & Hn & Hk).
    assert (Hkey : In (fst kv) (keys (live_items t (Kof t G) (Eof t G)))) by (unfold keys; now apply in_map).
    apply (live_keys t G H) in Hkey. apply in_map_iff in Hkey as (g & Eg & Hg). apply in_map_iff. exists g. split; [|exact Hg].
    destruct (HG g Hg) as ((Hng & _) & _). destruct (expected_name_key _ Hng) as (_ & H95g & _). destruct (expected_name_key _ Hn) as (_ & H95 & _).
    rewrite <- (replace_back _ H95g), <- (replace_back _ H95). f_equal. fold (fname_of (gf_name g)). fold (gkey g). fold (fname_of (rname (fst kv))). now rewrite Hk, Eg.
  - intros Hin. apply in_map_iff in Hin as (g & <- & Hg).
    assert (Hkey : In (gkey g) (keys (live_items t (Kof t G) (Eof t G)))) by (apply (live_keys t G H); now apply in_map).
    unfold keys in Hkey. apply in_map_iff in Hkey as (kv & Ek & Hkv). apply in_map_iff. exists kv. split; [|exact Hkv].
    destruct (HL kv Hkv) as (_ & Hn & Hk).
    destruct (HG g Hg) as ((Hng & _) & _). destruct (expected_name_key _ Hng) as (_ & H95g & _). destruct (expected_name_key _ Hn) as (_ & H95 & _).
    rewrite <- (replace_back _ H95g), <- (replace_back _ H95). f_equal. fold (fname_of (gf_name g)). fold (gkey g). fold (fname_of (rname (fst kv))). now rewrite Hk, Ek.
Qed.

(* ---------- whole documents of the DEP-5 grammar ---------- *)

Definition dep5_doc (ps : list (gpara * nat)) : Prop :=
  ps <> [] /\ wf_doc ps /\ Forall (fun pk => exists t, dep5_para t (fst pk)) ps.

Lemma mapM_grammar ps : Forall (fun pk => exists t, dep5_para t (fst pk)) ps -> forall n,
  exists specs, mapM spec_of_group (expected_doc n ps) = Ok specs /\ length specs = length ps /\ Forall spec_good specs.
Proof.
  induction 1 as [|[G k] ps (t & Ht) _ IH]; intros n; [exists []; repeat split; constructor|].
  cbn [expected_doc mapM fst] in *. destruct (spec_of_grammar_para t G n Ht) as (L & ->). cbn [bind].
  destruct (IH (n + N.of_nat (para_len G) + N.of_nat k)) as (specs & -> & Hlen & Hgood). cbn [bind].
  eexists. split; [reflexivity|]. split; [cbn [length]; now rewrite Hlen|]. constructor; [now apply grammar_spec_good|exact Hgood].
Qed.

(* THE GRAMMAR THEOREM: for every document of the DEP-5 grammar the object built from its text is
   rendered to a text that parses back to an object with the same paragraph types and the same
   dictionary forms, and that renders to the same text again *)
Theorem dep5_document_fixpoint ps : dep5_doc ps ->
  exists specs, from_text (doc_text ps) = Ok (map build specs) /\ length specs = length ps /\
    exists ps', from_text (doc_dumps (map build specs)) = Ok ps' /\
      Forall2 (fun p p' => p_type p' = p_type p /\ para_to_dict p' = para_to_dict p) (map build specs) ps' /\
      doc_dumps ps' = doc_dumps (map build specs).
Proof.
  intros (Hne & Hwf & Hps). destruct (mapM_grammar ps Hps 1) as (specs & Em & Hlen & Hgood).
  assert (Hs : specs_of_text (doc_text ps) = Ok specs).
  { unfold specs_of_text. rewrite wf_doc_text_parses by exact Hwf. cbn [bind]. exact Em. }
  assert (Hsne : specs <> []) by (intros E; rewrite E in Hlen; destruct ps; [contradiction|discriminate]).
  exists specs. split; [|split; [exact Hlen|]].
  - apply from_text_specs; [exact Hs|]. eapply Forall_impl; [|exact Hgood]. now intros s (_ & Hn & _).
  - now apply doc_roundtrip_fixpoint.
Qed.

(* ---------- rebuilding a paragraph of the grammar from its dictionary form ---------- *)

(* the continuation lines of the extra fields start with a space (a tab-indented continuation line of an
   extra field is NOT restored by from_dict: recorded finding F24) *)
Definition space_conts (g : gfield) : Prop := Forall (fun c => exists r, c = 32 :: r) (gf_conts g).

Lemma extra_value_stable g : gfield_ok g -> space_conts g ->
  enc (gvalue g) <> [] /\ as_formatted_text (from_formatted_text (as_formatted_text (gvalue g))) = as_formatted_text (gvalue g).
Proof.
  intros Hg Hsp. pose proof Hg as ((_ & _ & Hs & _ & Hc & _) & Hne & Hnl). destruct (gfield_lines g Hg) as [Hgl _].
  assert (Esp : splitlines (gvalue g) = gf_first g :: gf_conts g) by (unfold gvalue; now apply glines_splitlines).
  assert (Hps : Forall plain_start (gf_conts g)).
  { eapply Forall_impl; [|exact Hsp]. intros c (r & ->). right. now left. }
  assert (Edec : from_formatted_text (as_formatted_text (gvalue g)) = gvalue g).
  { rewrite (decode_encode_text _ _ _ Esp Hps). unfold gvalue. change [10] with [LF]. f_equal. rewrite Hs. f_equal.
    apply map_id_Forall. eapply Forall_impl; [|exact Hc]. now intros c (_ & Hr & _). }
  split; [|now rewrite Edec].
  assert (Eaft : as_formatted_text (gvalue g) <> []).
  { unfold as_formatted_text. rewrite Esp, as_formatted_lines_cons. unfold fmt0. rewrite (stripped_nonblank _ Hs Hne).
    destruct (map _ (gf_conts g)) as [|m ms]; [cbn [join]; exact Hne|]. rewrite join_cons. destruct (gf_first g); [contradiction|discriminate]. }
  unfold enc. destruct (gvalue g) as [|c0 v0] eqn:Ev; [|exact Eaft].
  exfalso. destruct (gvalue_renderable g Hg) as (Hf & _). rewrite Ev in Hf. now apply Hf.
Qed.

Theorem grammar_from_dict t G L : dep5_para t G -> (forall g, In g G -> known_name t (gkey g) = false -> space_conts g) ->
  let p := build (mkSpec t (Kof t G) (Eof t G) L) in
  para_to_dict (para_from_dict t (para_to_dict p)) = para_to_dict p.
Proof.
  intros H Hsp p. subst p. unfold build. cbn [s_type s_known s_extra s_lines]. pose proof (grammar_para_ok t G H) as Hok.
  pose proof (dp_fields _ _ H) as HG. rewrite Forall_forall in HG.
  apply from_dict_to_dict.
  - apply (po_extra _ _ _ Hok).
  - apply Forall_forall. intros kv Hin. destruct (in_E t G _ Hin) as (g & Hg & -> & Hun). cbn [snd]. apply extra_value_stable; [now apply HG|now apply Hsp].
  - apply (po_stable _ _ _ Hok).
Qed.
