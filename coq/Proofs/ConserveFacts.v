(* Proofs for C11: from field groups to the dictionary form no word is lost or invented,
   whichever recovery path applies (renaming, merging, folding, extra data). *)
From Coq Require Import String.
From Coq Require Import Arith NArith List Bool Lia Permutation.
From DI Require Import Result PyStr PyStrFacts Codec CodecFacts Deb822 Deb822Facts Debcon Copyright CopyrightFacts
  ParseFacts DepsParseFacts Grammar822Header Dep5Facts WordFacts.
Import ListNotations.
Open Scope N_scope.

(* ---------- building a paragraph: every value is stored once, under a fresh key ---------- *)

Definition kroute (t : ptype) (ae : bool) (name : str) : bool := negb ae && known_name t name.

Record binv (t : ptype) (ae : bool) (b : builder) : Prop := {
  bi_known : forall x, In x (keys (b_known b)) -> In x (b_seen b) /\ kroute t ae x = true;
  bi_extra : forall x, In x (keys (b_extra b)) -> In x (b_seen b) /\ kroute t ae x = false;
  bi_nd_known : NoDup (keys (b_known b));
  bi_nd_extra : NoDup (keys (b_extra b));
}.

Definition vals (b : builder) : list str := map snd (b_known b) ++ map snd (b_extra b).

Lemma add_field_cases t ae b f : binv t ae b ->
  (field_text f = [] /\ add_field t ae b f = Ok b) \/
  (field_text f <> [] /\ exists name sfx lines, ~ In name (b_seen b) /\
     add_field t ae b f =
     Ok (if kroute t ae name
         then mkB (b_known b ++ [(name, fvalue f)]) (b_extra b) lines (name :: b_seen b) sfx
         else mkB (b_known b) (b_extra b ++ [(name, fvalue f)]) lines (name :: b_seen b) sfx)).
Proof.
  intros Hinv. unfold add_field. destruct (field_text f) as [|c0 v0] eqn:Ev; [left; split; reflexivity|]. right. split; [discriminate|].
  rewrite <- Ev. fold (fvalue f). fold (fname f).
  assert (G : forall name sfx, ~ In name (b_seen b) ->
    exists lines, (let lines := dict_put name (first_content_line f, last_line f) (b_lines b) in
      if negb ae && known_name t name
      then if has_key name (b_known b) then Raise AssertionError
           else Ok (mkB (dict_put name (fvalue f) (b_known b)) (b_extra b) lines (name :: b_seen b) sfx)
      else if has_key name (b_extra b) then Raise AssertionError
           else Ok (mkB (b_known b) (dict_put name (fvalue f) (b_extra b)) lines (name :: b_seen b) sfx)) =
     Ok (if kroute t ae name
         then mkB (b_known b ++ [(name, fvalue f)]) (b_extra b) lines (name :: b_seen b) sfx
         else mkB (b_known b) (b_extra b ++ [(name, fvalue f)]) lines (name :: b_seen b) sfx)).
  { intros name sfx Hn. exists (dict_put name (first_content_line f, last_line f) (b_lines b)). cbv zeta. fold (kroute t ae name).
    assert (Hk1 : ~ In name (keys (b_known b))) by (intros Hi; apply Hn; now apply (bi_known _ _ _ Hinv)).
    assert (Hk2 : ~ In name (keys (b_extra b))) by (intros Hi; apply Hn; now apply (bi_extra _ _ _ Hinv)).
    rewrite (has_key_absent _ _ Hk1), (has_key_absent _ _ Hk2).
    rewrite (dict_put_fresh name (fvalue f) (b_known b)), (dict_put_fresh name (fvalue f) (b_extra b)) by (now apply dict_get_absent).
    destruct (kroute t ae name); reflexivity. }
  destruct (mem_str (fname f) (b_seen b)) eqn:Em.
  - destruct (fresh_name (S (length (b_seen b))) (fname f) (b_suffix b) (b_seen b)) as [name sfx] eqn:Ef.
    pose proof (fresh_name_fresh _ _ _ _ _ Ef) as Hfresh.
    assert (Hn : ~ In name (b_seen b)) by (intros Hi; apply mem_str_In in Hi; congruence).
    destruct (G name sfx Hn) as (lines & E). exists name, sfx, lines. split; [exact Hn|exact E].
  - assert (Hn : ~ In (fname f) (b_seen b)) by (intros Hi; apply mem_str_In in Hi; congruence).
    destruct (G (fname f) (b_suffix b) Hn) as (lines & E). exists (fname f), (b_suffix b), lines. split; [exact Hn|exact E].
Qed.

Lemma NoDup_snoc {A} (l : list A) x : NoDup l -> ~ In x l -> NoDup (l ++ [x]).
Proof.
  induction l as [|y l IH]; intros Hnd Hx; [constructor; [intros []|constructor]|].
  inversion Hnd as [|? ? Hy Hl]; subst. cbn [app]. constructor.
  - intros Hi. apply in_app_or in Hi as [Hi|[->|[]]]; [contradiction|]. apply Hx. now left.
  - apply IH; [exact Hl|]. intros Hi. apply Hx. now right.
Qed.

Lemma add_field_inv t ae b f b' : binv t ae b -> add_field t ae b f = Ok b' ->
  binv t ae b' /\ Permutation (vals b') ((if nonempty (field_text f) then [fvalue f] else []) ++ vals b).
Proof.
  intros Hinv H. destruct (add_field_cases t ae b f Hinv) as [[Ev E]|(Ev & name & sfx & lines & Hn & E)]; rewrite E in H; apply Ok_inj in H; subst b'.
  - rewrite Ev. split; [exact Hinv|reflexivity].
  - destruct (field_text f) as [|c0 v0]; [contradiction|]. cbn [nonempty].
    assert (Hk1 : ~ In name (keys (b_known b))) by (intros Hi; apply Hn; now apply (bi_known _ _ _ Hinv)).
    assert (Hk2 : ~ In name (keys (b_extra b))) by (intros Hi; apply Hn; now apply (bi_extra _ _ _ Hinv)).
    destruct (kroute t ae name) eqn:Er; split.
    + constructor; cbn [b_known b_extra b_seen].
      * intros x Hx. rewrite keys_app in Hx. apply in_app_or in Hx as [Hx|[<-|[]]].
        -- destruct (bi_known _ _ _ Hinv x Hx). split; [now right|assumption].
        -- split; [now left|exact Er].
      * intros x Hx. destruct (bi_extra _ _ _ Hinv x Hx). split; [now right|assumption].
      * rewrite keys_app. apply NoDup_snoc; [apply (bi_nd_known _ _ _ Hinv)|exact Hk1].
      * apply (bi_nd_extra _ _ _ Hinv).
    + unfold vals. cbn [b_known b_extra]. rewrite map_app. cbn [map snd].
      rewrite <- app_assoc. cbn [app]. symmetry. apply Permutation_middle.
    + constructor; cbn [b_known b_extra b_seen].
      * intros x Hx. destruct (bi_known _ _ _ Hinv x Hx). split; [now right|assumption].
      * intros x Hx. rewrite keys_app in Hx. apply in_app_or in Hx as [Hx|[<-|[]]].
        -- destruct (bi_extra _ _ _ Hinv x Hx). split; [now right|assumption].
        -- split; [now left|exact Er].
      * apply (bi_nd_known _ _ _ Hinv).
      * rewrite keys_app. apply NoDup_snoc; [apply (bi_nd_extra _ _ _ Hinv)|exact Hk2].
    + unfold vals. cbn [b_known b_extra]. rewrite map_app. cbn [map snd]. rewrite app_assoc.
      rewrite <- Permutation_cons_append. reflexivity.
Qed.

Lemma add_fields_inv t ae fs : forall b b', binv t ae b -> add_fields t ae b fs = Ok b' ->
  binv t ae b' /\ Permutation (vals b') (map fvalue (live fs) ++ vals b).
Proof.
  induction fs as [|f fs IH]; intros b b' Hinv H; cbn [add_fields] in H.
  - apply Ok_inj in H. subst. split; [exact Hinv|reflexivity].
  - destruct (add_field t ae b f) as [b1|e] eqn:E1; cbn [bind] in H; [|discriminate].
    destruct (add_field_inv t ae b f b1 Hinv E1) as [Hinv1 P1]. destruct (IH b1 b' Hinv1 H) as [Hinv' P'].
    split; [exact Hinv'|]. rewrite P'. unfold live. cbn [filter].
    destruct (nonempty (field_text f)); cbn [map app].
    + rewrite P1. cbn [app]. symmetry. apply Permutation_middle.
    + rewrite P1. reflexivity.
Qed.

(* ---------- the dictionary form of a built paragraph ---------- *)

Definition cw (l : list str) : list str := flat_map cwords l.
Definition pvals (p : para) : list str := map snd (para_to_dict p).
Definition lookup (k : str) (d : pydict str) : str := match dict_get k d with Some v => v | None => [] end.

Lemma fold_put_fresh (e : pydict str) : forall d, NoDup (keys e) -> (forall k, In k (keys e) -> ~ In k (keys d)) ->
  fold_left (fun d kv => dict_put (fst kv) (snd kv) d) e d = d ++ e.
Proof.
  induction e as [|[k v] e IH]; intros d Hnd Hdis; [now rewrite app_nil_r|]. cbn [fold_left fst snd].
  inversion Hnd as [|? ? Hk Hnd']; subst. rewrite dict_put_fresh by (apply dict_get_absent, Hdis; now left).
  rewrite IH; [now rewrite <- app_assoc|exact Hnd'|]. intros k' Hk' Hi. rewrite keys_app in Hi.
  apply in_app_or in Hi as [Hi|[<-|[]]]; [apply (Hdis k'); [now right|exact Hi]|contradiction].
Qed.

Lemma flat_map_nil {A B} (l : list A) : flat_map (fun _ => @nil B) l = [].
Proof. induction l; [reflexivity|assumption]. Qed.

Lemma flat_map_map {A B C} (f : B -> list C) (g : A -> B) l : flat_map f (map g l) = flat_map (fun x => f (g x)) l.
Proof. induction l as [|x l IH]; [reflexivity|]. cbn [map flat_map]. now rewrite IH. Qed.

Lemma flat_map_ext_in {A B} (f g : A -> list B) l : (forall a, In a l -> f a = g a) -> flat_map f l = flat_map g l.
Proof. induction l as [|x l IH]; intros H; [reflexivity|]. cbn [flat_map]. rewrite H by now left. rewrite IH; [reflexivity|]. intros a Ha. apply H. now right. Qed.

Lemma lookup_perm {X} (g : str -> list X) (Hg : g [] = []) (d : pydict str) : forall K,
  NoDup (keys d) -> NoDup K -> (forall k, In k (keys d) -> In k K) ->
  Permutation (flat_map (fun k => g (lookup k d)) K) (flat_map g (map snd d)).
Proof.
  induction d as [|[k v] d IH]; intros K Hnd HK Hsub.
  - cbn [map flat_map]. unfold lookup. cbn [dict_get]. rewrite Hg. now rewrite flat_map_nil.
  - inversion Hnd as [|? ? Hk Hnd']; subst.
    destruct (in_split k K (Hsub k (or_introl eq_refl))) as (K1 & K2 & ->).
    pose proof (NoDup_remove_1 _ _ _ HK) as HK'. pose proof (NoDup_remove_2 _ _ _ HK) as Hk'.
    assert (Hext : forall k', In k' (K1 ++ K2) -> g (lookup k' ((k, v) :: d)) = g (lookup k' d)).
    { intros k' Hi. unfold lookup. cbn [dict_get]. destruct (str_eqb k' k) eqn:E; [|reflexivity].
      apply str_eqb_eq in E. subst. contradiction. }
    rewrite flat_map_app. cbn [flat_map map snd].
    assert (Ek : lookup k ((k, v) :: d) = v) by (unfold lookup; cbn [dict_get]; now rewrite str_eqb_refl). rewrite Ek.
    rewrite (flat_map_ext_in _ (fun k' => g (lookup k' d)) K1) by (intros a Ha; apply Hext, in_or_app; now left).
    rewrite (flat_map_ext_in _ (fun k' => g (lookup k' d)) K2) by (intros a Ha; apply Hext, in_or_app; now right).
    rewrite Permutation_app_swap_app. apply Permutation_app_head. rewrite <- flat_map_app. apply IH; [exact Hnd'|exact HK'|].
    intros k' Hi. assert (Hin : In k' (K1 ++ k :: K2)) by (apply Hsub; now right).
    apply in_app_or in Hin as [Hin|[<-|Hin]]; [apply in_or_app; now left|contradiction|apply in_or_app; now right].
Qed.

Lemma known_names_nodup t : NoDup (map fst (known_fields t)).
Proof.
  assert (G : forall l : list str, (fix nd (l : list str) := match l with [] => true | x :: l' => negb (mem_str x l') && nd l' end) l = true -> NoDup l).
  { induction l as [|x l IH]; intros H; [constructor|]. apply andb_true_iff in H as [H1 H2]. constructor; [|now apply IH].
    intros Hi. apply mem_str_In in Hi. rewrite Hi in H1. discriminate. }
  destruct t; apply G; vm_compute; reflexivity.
Qed.

Lemma known_name_In t k : known_name t k = true <-> In k (map fst (known_fields t)).
Proof.
  unfold known_name. rewrite existsb_exists. split.
  - intros ((n, c) & Hi & E). apply str_eqb_eq in E. cbn in E. subst. now apply (in_map fst) in Hi.
  - intros Hi. apply in_map_iff in Hi as ((n, c) & E & Hi). cbn in E. subst. exists (k, c). split; [exact Hi|apply str_eqb_refl].
Qed.

Lemma cwords_extra v : cwords (match v with [] => [] | _ => as_formatted_text v end) = cwords v.
Proof. destruct v; [reflexivity|apply cwords_as_formatted_text]. Qed.

Theorem build_para_words t known extra lines :
  NoDup (keys known) -> NoDup (keys extra) ->
  (forall k, In k (keys known) -> kroute t (all_extra t) k = true) ->
  (forall k, In k (keys extra) -> kroute t (all_extra t) k = false) ->
  Permutation (cw (pvals (build_para t known extra lines))) (cw (map snd known ++ map snd extra)).
Proof.
  intros Hndk Hnde Hk He. unfold pvals, para_to_dict, build_para. cbn [p_extra].
  set (kd := known_to_dict _).
  assert (Ekd : kd = map (fun kf => (fst kf, fval_dumps (convert (snd kf) (lookup (fst kf) known)))) (known_fields t)).
  { subst kd. unfold known_to_dict. cbn [p_fields]. rewrite map_map. reflexivity. }
  assert (Hkeys : keys kd = map fst (known_fields t)) by (rewrite Ekd; unfold keys; rewrite map_map; reflexivity).
  rewrite fold_put_fresh.
  - rewrite map_app. unfold cw. rewrite !flat_map_app. apply Permutation_app.
    + rewrite Ekd, map_map. cbn [snd]. rewrite flat_map_map.
      rewrite (flat_map_ext _ (fun kf => cwords (lookup (fst kf) known))) by (intros kf; apply cwords_convert_dumps).
      rewrite <- (flat_map_map (fun k => cwords (lookup k known)) fst). apply lookup_perm; [reflexivity|exact Hndk|apply known_names_nodup|].
      intros k Hi. specialize (Hk k Hi). unfold kroute in Hk. apply andb_true_iff in Hk as [_ Hk]. now apply known_name_In.
    + unfold extra_to_dict. rewrite !flat_map_map. cbn [snd]. apply Permutation_refl'.
      apply flat_map_ext. intros [k v]. cbn [snd]. destruct v; [reflexivity|apply cwords_as_formatted_text].
  - unfold extra_to_dict, keys. rewrite map_map. exact Hnde.
  - intros k Hi. unfold extra_to_dict, keys in Hi. rewrite map_map in Hi. cbn [fst] in Hi. specialize (He k Hi).
    rewrite Hkeys. intros Hin. apply known_name_In in Hin. unfold kroute in He. rewrite Hin, andb_true_r in He.
    apply negb_false_iff in He. unfold all_extra in He. destruct t; discriminate.
Qed.

Lemma cw_live fs : cw (map fvalue (live fs)) = cw (map field_text fs).
Proof.
  unfold cw, live. induction fs as [|f fs IH]; [reflexivity|]. cbn [filter map flat_map].
  destruct (field_text f) as [|c0 v0] eqn:Ev; cbn [nonempty].
  - exact IH.
  - cbn [map flat_map]. rewrite IH. f_equal. unfold fvalue. rewrite Ev. apply cwords_lstrip.
Qed.

(* paragraphs as the builder makes them: every known field typed by its converter *)
Definition wfp (p : para) : Prop :=
  exists known, p_fields p = map (fun kf => (fst kf, convert (snd kf) (lookup (fst kf) known))) (known_fields (p_type p)).

Theorem from_fields_words t fs p : from_fields t fs = Ok p ->
  Permutation (cw (pvals p)) (cw (map field_text fs)) /\ wfp p.
Proof.
  unfold from_fields. fold (all_extra t). destruct (add_fields t (all_extra t) _ fs) as [b|e] eqn:E; cbn [bind]; [|discriminate].
  intros H. apply Ok_inj in H. subst p.
  assert (Hinit : binv t (all_extra t) (mkB [] [] [] [] 1)) by (constructor; cbn; (intros x [] || constructor)).
  destruct (add_fields_inv t (all_extra t) fs _ b Hinit E) as [Hinv P]. split.
  - rewrite build_para_words.
    + fold (vals b). unfold cw in *. rewrite <- cw_live. unfold vals at 2 in P. cbn [b_known b_extra map app] in P.
      rewrite app_nil_r in P. unfold cw. clear -P. induction P; cbn [flat_map]; try reflexivity.
      * now apply Permutation_app_head.
      * rewrite !app_assoc. apply Permutation_app_tail. apply Permutation_app_comm.
      * etransitivity; eassumption.
    + apply (bi_nd_known _ _ _ Hinv).
    + apply (bi_nd_extra _ _ _ Hinv).
    + intros k Hk. now apply (bi_known _ _ _ Hinv).
    + intros k Hk. now apply (bi_extra _ _ _ Hinv).
  - exists (b_known b). reflexivity.
Qed.

(* ---------- merging runs of unknown paragraphs ---------- *)

Definition cwp (ps : list para) : list str := flat_map (fun p => cw (pvals p)) ps.

Lemma cw_app a b : cw (a ++ b) = cw a ++ cw b.
Proof. unfold cw. apply flat_map_app. Qed.

Lemma cwp_app a b : cwp (a ++ b) = cwp a ++ cwp b.
Proof. unfold cwp. apply flat_map_app. Qed.

Lemma cw_flat_map {A} (f : A -> list str) l : cw (flat_map f l) = flat_map (fun x => cw (f x)) l.
Proof. induction l as [|x l IH]; [reflexivity|]. cbn [flat_map]. now rewrite cw_app, IH. Qed.

Theorem merge_run_words run : cw (pvals (merge_run run)) = cwp run.
Proof.
  unfold merge_run, pvals, para_to_dict, known_to_dict. cbn [p_fields p_extra map fold_left extra_to_dict fst snd dict_put].
  unfold cw at 1. cbn [map snd flat_map]. rewrite app_nil_r.
  set (v := from_formatted_lines _).
  transitivity (cwords v); [destruct v; [reflexivity|apply cwords_as_formatted_text]|]. subst v. rewrite cwords_from_formatted_lines. fold (cw (flat_map (fun p => map snd (para_to_dict p)) run)).
  rewrite cw_flat_map. reflexivity.
Qed.

Lemma merge_run_wfp run : wfp (merge_run run).
Proof. exists []. reflexivity. Qed.

Lemma span_catchall_app ps : let '(a, b) := span_catchall ps in ps = a ++ b.
Proof.
  induction ps as [|p ps IH]; [reflexivity|]. cbn [span_catchall]. destruct (is_catchall p); [|reflexivity].
  destruct (span_catchall ps) as [a b]. cbn [app]. now rewrite IH.
Qed.

Lemma span_catchall_length ps : let '(a, b) := span_catchall ps in (length b <= length ps)%nat.
Proof.
  induction ps as [|p ps IH]; [cbn; lia|]. cbn [span_catchall]. destruct (is_catchall p); [|cbn; lia].
  destruct (span_catchall ps) as [a b]. cbn [length]. lia.
Qed.

Theorem merge_unknown_words n : forall ps, Forall wfp ps ->
  cwp (merge_unknown n ps) = cwp ps /\ Forall wfp (merge_unknown n ps).
Proof.
  induction n as [|n IH]; intros ps Hw; [split; [reflexivity|exact Hw]|].
  destruct ps as [|p ps]; [split; [reflexivity|constructor]|]. cbn [merge_unknown].
  destruct (is_catchall p) eqn:Ec.
  - pose proof (span_catchall_app (p :: ps)) as Happ. destruct (span_catchall (p :: ps)) as [run rest] eqn:Es.
    assert (Hrun : Forall wfp run /\ Forall wfp rest) by (rewrite Happ in Hw; now apply Forall_app in Hw).
    destruct Hrun as [Hrun Hrest]. destruct (IH rest Hrest) as [IHw IHf].
    assert (Keep : cwp (run ++ merge_unknown n rest) = cwp (p :: ps) /\ Forall wfp (run ++ merge_unknown n rest)).
    { split; [rewrite Happ, !cwp_app, IHw; reflexivity|apply Forall_app; now split]. }
    destruct run as [|r1 [|r2 run']]; try exact Keep.
    destruct (forallb is_all_unknown (r1 :: r2 :: run')); [|exact Keep]. split.
    + rewrite Happ, cwp_app. change (cwp (merge_run (r1 :: r2 :: run') :: merge_unknown n rest))
        with (cw (pvals (merge_run (r1 :: r2 :: run'))) ++ cwp (merge_unknown n rest)).
      now rewrite merge_run_words, IHw.
    + constructor; [apply merge_run_wfp|exact IHf].
  - inversion Hw as [|? ? Hp Hps]; subst. destruct (IH ps Hps) as [IHw IHf]. split.
    + change (cwp (p :: merge_unknown n ps)) with (cw (pvals p) ++ cwp (merge_unknown n ps)). now rewrite IHw.
    + constructor; assumption.
Qed.

(* ---------- folding free text into an empty license paragraph ---------- *)

Lemma cwords_lic_dumps_text text : cwords (lic_dumps [] text) = cwords text.
Proof.
  unfold lic_dumps. rewrite cwords_strip. unfold desc_dumps. cbv zeta. change (strip []) with (@nil char).
  destruct text as [|c t']; [reflexivity|]. rewrite cwords_as_formatted_lines. cbn [flat_map]. rewrite cwords_splitlines.
  change (cwords [] ++ ?x) with x. destruct (N.eqb_spec c 32) as [->|]; [|reflexivity]. apply cwords_of. now apply words_tl_space.
Qed.

Lemma cw_filter_nonempty l : cw (filter (fun v : str => nonempty v) l) = cw l.
Proof.
  unfold cw. induction l as [|v l IH]; [reflexivity|]. cbn [filter flat_map]. destruct v; cbn [nonempty]; [exact IH|].
  cbn [flat_map]. now rewrite IH.
Qed.

Lemma license_fields p : wfp p -> p_type p = PLicense ->
  exists n tx c, p_fields p = [(lit "license", VLicense n tx); (lit "comment", VText c)].
Proof.
  intros (known & E) Ht. rewrite Ht in E. cbn [known_fields map fst snd convert] in E.
  destruct (lic_from_value (lookup (lit "license") known)) as [n tx]. eexists n, tx, _. exact E.
Qed.

Theorem fold_pair_words p1 p2 : wfp p1 -> foldable p1 p2 = true ->
  cw (pvals (fold_pair p1 p2)) = cw (pvals p1) ++ cw (pvals p2).
Proof.
  intros Hw Hf. unfold foldable in Hf. apply andb_true_iff in Hf as [Hf _]. apply andb_true_iff in Hf as [Hf _].
  apply andb_true_iff in Hf as [Ht He]. destruct (p_type p1) eqn:Etype; try discriminate.
  destruct (license_fields p1 Hw Etype) as (n & tx & c & Ef).
  unfold para_is_empty in He. rewrite Etype in He. apply negb_true_iff in He.
  unfold lic_name, lic_text, comment_text, get_field in He. rewrite Ef in He. cbn [find fst] in He.
  change (str_eqb (lit "license") (lit "license")) with true in He.
  change (str_eqb (lit "comment") (lit "license")) with false in He.
  change (str_eqb (lit "comment") (lit "comment")) with true in He. cbv iota in He. cbn [find fst] in He.
  change (str_eqb (lit "license") (lit "comment")) with false in He.
  change (str_eqb (lit "comment") (lit "comment")) with true in He. cbv iota in He.
  apply orb_false_iff in He as [He H4]. apply orb_false_iff in He as [He H3]. apply orb_false_iff in He as [H1 H2].
  destruct (p_extra p1) as [|x ex] eqn:Eex; [|discriminate]. destruct c; [|discriminate]. destruct n; [|discriminate]. destruct tx; [|discriminate].
  assert (E1 : pvals p1 = [lic_dumps [] []; ftf_dumps []]).
  { unfold pvals, para_to_dict, known_to_dict. rewrite Ef, Eex. reflexivity. }
  assert (E2 : pvals (fold_pair p1 p2) = [lic_dumps [] (join [10] (filter (fun v : str => nonempty v) (pvals p2))); ftf_dumps []]).
  { unfold fold_pair. destruct (first_last p2) as [f2 e2]. unfold pvals at 1, para_to_dict, known_to_dict. cbn [p_fields p_extra].
    unfold set_license. rewrite Ef, Eex. cbn [map fst snd extra_to_dict fold_left].
    change (str_eqb (lit "license") (lit "license")) with true.
    change (str_eqb (lit "comment") (lit "license")) with false. cbv iota. reflexivity. }
  rewrite E1, E2. unfold cw at 1 2. cbn [flat_map]. rewrite cwords_lic_dumps_text. rewrite cwords_join by (discriminate || reflexivity).
  fold (cw (filter (fun v : str => nonempty v) (pvals p2))). rewrite cw_filter_nonempty.
  change (cwords (lic_dumps [] [])) with (@nil str). change (cwords (ftf_dumps [])) with (@nil str). cbn [app]. now rewrite app_nil_r.
Qed.

Theorem fold_list_words n : forall ps, (length ps <= n)%nat -> Forall wfp ps -> cwp (fold_list ps) = cwp ps.
Proof.
  induction n as [|n IH]; intros ps Hl Hw.
  - destruct ps; [reflexivity|cbn in Hl; lia].
  - destruct ps as [|p1 [|p2 rest]]; try reflexivity.
    change (fold_list (p1 :: p2 :: rest)) with (if foldable p1 p2 then fold_pair p1 p2 :: fold_list rest else p1 :: fold_list (p2 :: rest)).
    inversion Hw as [|? ? Hp1 Hw']; subst. inversion Hw' as [|? ? Hp2 Hw'']; subst.
    destruct (foldable p1 p2) eqn:Ef.
    + change (cwp (fold_pair p1 p2 :: fold_list rest)) with (cw (pvals (fold_pair p1 p2)) ++ cwp (fold_list rest)).
      rewrite fold_pair_words by assumption. rewrite IH; [|cbn in Hl; lia|exact Hw'']. unfold cwp. cbn [flat_map]. now rewrite <- app_assoc.
    + change (cwp (p1 :: fold_list (p2 :: rest))) with (cw (pvals p1) ++ cwp (fold_list (p2 :: rest))).
      rewrite IH; [reflexivity|cbn in Hl |- *; lia|exact Hw'].
Qed.

Lemma fold_license_words ps : Forall wfp ps -> cwp (fold_license ps) = cwp ps.
Proof. intros H. unfold fold_license. destruct (Nat.leb _ 2); [reflexivity|]. now apply (fold_list_words (length ps)). Qed.

(* ---------- from field groups to the dictionary form ---------- *)

Theorem from_groups_words gs ps : from_groups gs = Ok ps ->
  Permutation (cwp ps) (flat_map (fun g => cw (map field_text g)) gs).
Proof.
  unfold from_groups. destruct (mapM _ gs) as [ps0|e] eqn:E; cbn [bind]; [|discriminate]. intros H. apply Ok_inj in H. subst ps.
  assert (F2 : Forall2 (fun g p => Permutation (cw (pvals p)) (cw (map field_text g)) /\ wfp p) gs ps0).
  { eapply mapM_shape; [|exact E]. intros g p Hp. now apply from_fields_words in Hp. }
  assert (Hw : Forall wfp ps0) by (clear -F2; induction F2 as [|g p gs ps [_ H] _ IH]; constructor; assumption).
  destruct (merge_unknown_words (length ps0) ps0 Hw) as [Em Hm]. rewrite fold_license_words by exact Hm. rewrite Em.
  clear -F2. induction F2 as [|g p gs ps [P _] _ IH]; [constructor|]. unfold cwp. cbn [flat_map]. now apply Permutation_app.
Qed.

(* ---------- from the text to the field groups ---------- *)

(* the words of one source line that the parser keeps: after the colon for a declaration
   line, the whole line otherwise *)
Definition decl_value (v : str) : str := let '(_, _, value) := partition_char 58 v in value.
Definition line_cw (v : str) : list str := if is_decl v then cwords (decl_value v) else cwords v.

Definition field_cw (f : field) : list str := flat_map (fun l => cwords (ln_val l)) (f_lines f).
Definition rfield_cw (f : field) : list str := flat_map (fun l => cwords (ln_val l)) (rev (f_lines f)).
Definition sw (cur : rgroup) : list str := flat_map rfield_cw (rev cur).

Lemma field_text_cw f : cwords (field_text f) = field_cw f.
Proof.
  unfold field_text, field_cw. rewrite cwords_join by (discriminate || reflexivity). now rewrite flat_map_map.
Qed.

Lemma drop_blank_cw rl : flat_map (fun l => cwords (ln_val l)) (rev (drop_while_lines (fun l => is_blank (ln_val l)) rl)) =
  flat_map (fun l => cwords (ln_val l)) (rev rl).
Proof.
  induction rl as [|l rl IH]; [reflexivity|]. cbn [drop_while_lines]. destruct (is_blank (ln_val l)) eqn:E; [|reflexivity].
  rewrite IH. cbn [rev]. rewrite flat_map_app. cbn [flat_map]. rewrite (cwords_blank _ E). now rewrite !app_nil_r.
Qed.

Lemma flush_cw cur : flat_map (fun g => cw (map field_text g)) (flush cur) = sw cur.
Proof.
  unfold flush, sw. destruct cur as [|f fs]; [reflexivity|]. cbn [flat_map]. rewrite app_nil_r.
  unfold cw. rewrite map_map, flat_map_map. apply flat_map_ext. intros g. rewrite field_text_cw.
  unfold field_cw, finish_field, rfield_cw. cbn [f_lines]. apply drop_blank_cw.
Qed.

Lemma sw_cont f fs l : sw (add_continuation f l :: fs) = sw (f :: fs) ++ cwords (ln_val l).
Proof.
  unfold sw. cbn [rev]. rewrite !flat_map_app. cbn [flat_map]. rewrite !app_nil_r, <- app_assoc. f_equal.
  unfold rfield_cw, add_continuation. cbn [f_lines rev]. rewrite flat_map_app. cbn [flat_map ln_val]. now rewrite app_nil_r, cwords_rstrip.
Qed.

Lemma sw_new nf cur : sw (nf :: cur) = sw cur ++ rfield_cw nf.
Proof. unfold sw. cbn [rev]. rewrite flat_map_app. cbn [flat_map]. now rewrite app_nil_r. Qed.

Lemma from_line_cw l nf : from_line l = Some nf -> rfield_cw nf = line_cw (ln_val l).
Proof.
  unfold from_line, line_cw, decl_value. destruct (is_decl (ln_val l)); cbn [negb]; [|discriminate].
  destruct (partition_char 58 (ln_val l)) as [[name found] value]. destruct (lower_name (strip name)); [discriminate|].
  intros H. inversion H; subst. unfold rfield_cw. cbn [f_lines rev app flat_map ln_val]. now rewrite app_nil_r, cwords_strip.
Qed.

Lemma rmap_ok {A B} (f : A -> B) r y : rmap f r = Ok y -> exists x, r = Ok x /\ y = f x.
Proof. destruct r as [x|e]; cbn [rmap]; [|discriminate]. intros H. apply Ok_inj in H. now exists x. Qed.

Definition gw (gs : list (list field)) : list str := flat_map (fun g => cw (map field_text g)) gs.

Lemma not_decl_cw v : is_decl v = false -> line_cw v = cwords v.
Proof. unfold line_cw. now intros ->. Qed.

Lemma unknown_cw l : cw (map field_text (unknown_group l)) = cwords (ln_val l).
Proof. unfold unknown_group, cw. cbn [map flat_map]. rewrite field_text_cw. unfold field_cw. cbn [f_lines flat_map]. now rewrite !app_nil_r. Qed.

Theorem groups_loop_words lines : forall cur gs, groups_loop lines cur = Ok gs ->
  gw gs = sw cur ++ flat_map (fun l => line_cw (ln_val l)) lines.
Proof.
  induction lines as [|l rest IH]; intros cur gs H.
  - cbn [groups_loop] in H. apply Ok_inj in H. subst. cbn [flat_map]. rewrite app_nil_r. apply flush_cw.
  - cbn [groups_loop] in H. cbn [flat_map]. destruct (is_blank (ln_val l)) eqn:Eb.
    + assert (Hl : line_cw (ln_val l) = []).
      { unfold line_cw. destruct (is_decl (ln_val l)) eqn:Ed; [|now apply cwords_blank].
        exfalso. unfold is_decl in Ed. destruct (ln_val l) as [|c v] eqn:Ev; [discriminate|].
        apply andb_true_iff in Ed as [Ed _]. unfold is_blank, all_space in Eb. cbn [forallb] in Eb. apply andb_true_iff in Eb as [Eb _].
        unfold is_az_ic in Ed. clear -Ed Eb. unfold is_space in Eb. unfold is_ascii_alpha, is_ascii_upper, is_ascii_lower in Ed. lia. }
      rewrite Hl. cbn [app]. destruct cur as [|f fs].
      * now apply IH.
      * match type of H with (if ?c then _ else _) = _ => destruct c end.
        -- apply IH in H. rewrite H, sw_cont, (cwords_blank _ Eb), app_nil_r. reflexivity.
        -- apply rmap_ok in H as (gs' & Hg & ->). apply IH in Hg. unfold gw in *. rewrite flat_map_app, flush_cw, Hg. reflexivity.
    + destruct cur as [|f fs].
      * destruct (is_decl (ln_val l)) eqn:Ed.
        -- destruct (from_line l) as [nf|] eqn:Ef; [|discriminate]. apply IH in H. rewrite H.
           change [nf] with (nf :: []). rewrite sw_new, (from_line_cw _ _ Ef). now rewrite <- app_assoc.
        -- apply rmap_ok in H as (gs' & Hg & ->). apply IH in Hg. unfold gw in *. cbn [flat_map]. rewrite Hg, unknown_cw.
           now rewrite (not_decl_cw _ Ed).
      * destruct (is_cont (ln_val l)) eqn:Ec.
        -- apply IH in H. rewrite H, sw_cont. destruct (BlankFacts.is_cont_facts _ Ec) as [_ Ed]. rewrite (not_decl_cw _ Ed).
           now rewrite <- app_assoc.
        -- destruct (is_decl (ln_val l)) eqn:Ed.
           ++ destruct (from_line l) as [nf|] eqn:Ef; [|discriminate]. apply IH in H. rewrite H, sw_new, (from_line_cw _ _ Ef).
              now rewrite <- app_assoc.
           ++ apply rmap_ok in H as (gs' & Hg & ->). apply IH in Hg. unfold gw in *. rewrite flat_map_app, flush_cw. cbn [flat_map].
              rewrite Hg, unknown_cw, (not_decl_cw _ Ed). reflexivity.
Qed.

Lemma number_from_vals' n ls : map ln_val (number_from n ls) = ls.
Proof. revert n; induction ls as [|l ls IH]; intros n; cbn [number_from map ln_val]; [reflexivity|now rewrite IH]. Qed.

(* the whole pipeline: text -> lines -> field groups -> typed paragraphs -> recovery rewrites ->
   dictionary form *)
Theorem from_text_words t ps : from_text t = Ok ps ->
  Permutation (cwp ps) (flat_map line_cw (text_lines t)).
Proof.
  unfold from_text. destruct (groups t) as [gs|e] eqn:Eg; cbn [bind]; [|discriminate]. intros H.
  rewrite (from_groups_words gs ps H). unfold groups, groups_from_lines, lines_from_text in Eg.
  apply groups_loop_words in Eg. unfold gw in Eg. rewrite Eg. cbn [sw rev flat_map app].
  rewrite <- (flat_map_map line_cw ln_val), number_from_vals'. reflexivity.
Qed.
