(* Proofs for C06 (line-tracking parser): a well-formed document parses to exactly its
   paragraphs and fields. *)
From Coq Require Import String.
From Coq Require Import Arith NArith List Bool Lia.
From DI Require Import Result PyStr PyStrFacts Deb822 Deb822Facts BlankFacts Grammar822 VersionFacts ParseFacts DepsParseFacts.
Import ListNotations.
Open Scope N_scope.

(* ---------- the declaration line ---------- *)

Lemma alnum_name_char c : is_ascii_alnum c = true \/ c = 45 -> is_name_char c = true /\ c <> 58 /\ c <> 304 /\ c <> 8490 /\ is_space c = false.
Proof.
  intros H. assert (Hb : c < 128).
  { destruct H as [H| ->]; [|lia]. unfold is_ascii_alnum, is_ascii_alpha, is_ascii_upper, is_ascii_lower, is_ascii_digit in H.
    repeat (apply orb_true_iff in H; destruct H as [H|H]); apply andb_true_iff in H as [_ H]; apply N.leb_le in H; lia. }
  set (P := fun c => implb (is_ascii_alnum c || (c =? 45))
                 (is_name_char c && negb (c =? 58) && negb (is_space c))).
  assert (G : P c = true) by (apply (all_below_spec 128 P); [vm_compute; reflexivity|exact Hb]).
  unfold P in G. assert (E : is_ascii_alnum c || (c =? 45) = true).
  { destruct H as [->| ->]; [reflexivity|apply orb_true_r]. }
  rewrite E in G. cbn [implb] in G. apply andb_true_iff in G as [G G3]. apply andb_true_iff in G as [G1 G2].
  repeat split; try assumption; try lia.
  - apply N.eqb_neq. now apply negb_true_iff.
  - now apply negb_true_iff.
Qed.

Lemma lower_name_ascii n : Forall (fun x => is_ascii_alnum x = true \/ x = 45) n -> lower_name n = lower_ascii n.
Proof.
  induction 1 as [|c n Hc _ IH]; [reflexivity|]. cbn [lower_name lower_ascii map].
  destruct (alnum_name_char c Hc) as (_ & _ & H304 & H8490 & _).
  apply N.eqb_neq in H304, H8490. rewrite H304, H8490. f_equal. exact IH.
Qed.

Lemma gap_strip gap v : Forall (fun c => is_blank_tab c = true) gap -> strip v = v -> strip (gap ++ v) = v.
Proof.
  intros Hg Hv. assert (Hws : forallb is_space gap = true).
  { apply forallb_forall. intros c Hc. rewrite Forall_forall in Hg. now apply blank_tab_space, Hg. }
  unfold strip, strip_by, lstrip_by. rewrite drop_while_app_all by exact Hws. exact Hv.
Qed.

Lemma decl_line_facts_gen f n : name_ok (gf_name f) -> Forall (fun c => is_blank_tab c = true) (gf_gap f) ->
  strip (gf_first f) = gf_first f ->
  is_decl (decl_text f) = true /\ is_blank (decl_text f) = false /\ is_cont (decl_text f) = false /\
  from_line (mkLine n (decl_text f)) = Some (mkField (expected_name (gf_name f)) [mkLine n (gf_first f)]).
Proof.
  intros Hn Hgap Hfs. unfold decl_text.
  destruct (gf_name f) as [|c nm] eqn:En; [contradiction|]. destruct Hn as [Hc Hall]. rewrite <- En in *.
  assert (Hnc : Forall (fun x => is_name_char x = true) (gf_name f)).
  { eapply Forall_impl; [|exact Hall]. intros x Hx. now apply alnum_name_char. }
  assert (Hdrop : drop_while is_name_char (gf_name f ++ [58] ++ gf_gap f ++ gf_first f) = [58] ++ gf_gap f ++ gf_first f).
  { apply (DepsParseFacts.take_drop_app is_name_char (gf_name f) ([58] ++ gf_gap f ++ gf_first f)); [exact Hnc|reflexivity]. }
  assert (Haz : is_az_ic c = true) by (unfold is_az_ic; now rewrite Hc).
  assert (Hdecl : is_decl (gf_name f ++ [58] ++ gf_gap f ++ gf_first f) = true).
  { unfold is_decl. rewrite Hdrop. rewrite En. cbn [app]. now rewrite Haz. }
  assert (Hsp : is_space c = false) by now apply alpha_nospace.
  split; [exact Hdecl|]. split; [|split].
  - rewrite En. cbn [app]. unfold is_blank, all_space. cbn [forallb]. now rewrite Hsp.
  - rewrite En. cbn [app]. unfold is_cont. unfold is_blank_tab.
    destruct (N.eqb_spec c 32) as [->|]; [discriminate Hsp|]. destruct (N.eqb_spec c 9) as [->|]; [discriminate Hsp|]. reflexivity.
  - unfold from_line. cbn [ln_val ln_num]. rewrite Hdecl. cbn [negb].
    assert (Hno : ~ In 58 (gf_name f)).
    { intros Hi. rewrite Forall_forall in Hall. destruct (alnum_name_char 58 (Hall _ Hi)) as (_ & H & _). now apply H. }
    change (gf_name f ++ [58] ++ gf_gap f ++ gf_first f) with (gf_name f ++ 58 :: gf_gap f ++ gf_first f) in *.
    rewrite partition_char_app by exact Hno.
    assert (Hstrip : strip (gf_name f) = gf_name f).
    { apply ParseFacts.nospace_strip. eapply Forall_impl; [|exact Hall]. intros x Hx. now apply alnum_name_char. }
    rewrite Hstrip, (lower_name_ascii _ Hall).
    destruct (lower_ascii (gf_name f)) as [|x l] eqn:El; [rewrite En in El; discriminate|]. rewrite <- El.
    unfold expected_name. rewrite (gap_strip _ _ Hgap Hfs). reflexivity.
Qed.

Lemma decl_line_facts f n : wf_gfield f ->
  is_decl (decl_text f) = true /\ is_blank (decl_text f) = false /\ is_cont (decl_text f) = false /\
  from_line (mkLine n (decl_text f)) = Some (mkField (expected_name (gf_name f)) [mkLine n (gf_first f)]).
Proof. intros (Hn & Hgap & Hfs & _). now apply decl_line_facts_gen. Qed.

(* ---------- fields, paragraphs, separators ---------- *)

Lemma number_from_app n a b :
  number_from n (a ++ b) = number_from n a ++ number_from (n + N.of_nat (length a)) b.
Proof.
  revert n; induction a as [|x a IH]; intros n; cbn [app number_from length].
  - now rewrite N.add_0_r.
  - rewrite IH. do 3 f_equal. lia.
Qed.

Definition cont_ok (c : str) : Prop := is_cont c = true /\ rstrip c = c /\ no_eol c.

Lemma conts_step cs : forall n f fs rest, Forall cont_ok cs ->
  groups_loop (number_from n cs ++ rest) (f :: fs) =
  groups_loop rest (mkField (f_name f) (rev (number_from n cs) ++ f_lines f) :: fs).
Proof.
  induction cs as [|c cs IH]; intros n f fs rest H; [destruct f; reflexivity|].
  inversion H as [|? ? (Hc & Hr & _) Hcs]; subst.
  cbn [number_from app groups_loop ln_val]. destruct (is_cont_facts c Hc) as [Hb _]. rewrite Hb, Hc.
  rewrite IH by exact Hcs. unfold add_continuation. cbn [f_name f_lines ln_num ln_val rev]. rewrite Hr, <- app_assoc. reflexivity.
Qed.

Definition rfield (f : field) : field := mkField (f_name f) (rev (f_lines f)).

Lemma field_step f n cur rest : wf_gfield f ->
  groups_loop (number_from n (field_src f) ++ rest) cur =
  groups_loop rest (rfield (expected_field n f) :: cur).
Proof.
  intros Hw. destruct (decl_line_facts f n Hw) as (Hd & Hb & Hc & Hf).
  assert (Hcs : Forall cont_ok (gf_conts f)) by apply Hw.
  unfold field_src. cbn [number_from app groups_loop ln_val]. rewrite Hb, Hd, Hf.
  assert (G : forall cur', groups_loop (number_from (n + 1) (gf_conts f) ++ rest)
     ({| f_name := expected_name (gf_name f); f_lines := [{| ln_num := n; ln_val := gf_first f |}] |} :: cur') =
     groups_loop rest (rfield (expected_field n f) :: cur')).
  { intros cur'. rewrite conts_step by exact Hcs. reflexivity. }
  destruct cur as [|g gs]; [apply G|]. rewrite Hc. apply G.
Qed.

Lemma para_step p : forall n cur rest, Forall wf_gfield p ->
  groups_loop (number_from n (flat_map field_src p) ++ rest) cur =
  groups_loop rest (rev (map rfield (expected_para n p)) ++ cur).
Proof.
  induction p as [|f p IH]; intros n cur rest H; [reflexivity|].
  inversion H as [|? ? Hf Hp]; subst. cbn [flat_map expected_para map rev].
  rewrite number_from_app, <- app_assoc, field_step by exact Hf. rewrite IH by exact Hp.
  now rewrite <- app_assoc.
Qed.

Lemma number_from_snoc n a x : number_from n (a ++ [x]) = number_from n a ++ [mkLine (n + N.of_nat (length a)) x].
Proof. now rewrite number_from_app. Qed.

Lemma first_not_blank v : strip v = v -> v <> [] -> is_blank v = false.
Proof.
  intros Hs Hne. unfold is_blank, all_space. destruct (forallb is_space v) eqn:E; [|reflexivity].
  unfold strip in Hs. rewrite strip_by_all in Hs by exact E. congruence.
Qed.

Lemma finish_rfield f n : wf_gfield f -> finish_field (rfield (expected_field n f)) = expected_field n f.
Proof.
  intros (_ & _ & Hs & _ & Hcs & Hne). unfold finish_field, rfield, expected_field. cbn [f_name f_lines]. f_equal.
  destruct (gf_conts f) as [|c0 cs0] eqn:Ec.
  - cbn [number_from rev app drop_while_lines ln_val]. destruct Hne as [Hne|Hne]; [|contradiction].
    now rewrite (first_not_blank _ Hs Hne).
  - destruct (exists_last (l := c0 :: cs0)) as (cs & c & E); [discriminate|]. rewrite E in *.
    cbn [rev]. rewrite number_from_snoc, rev_app_distr. cbn [rev app drop_while_lines ln_val].
    apply Forall_app in Hcs as [_ Hc]. inversion Hc as [|? ? (Hc1 & _) _]; subst.
    destruct (is_cont_facts c Hc1) as [Hb _]. rewrite Hb.
    change ({| ln_num := n + 1 + N.of_nat (length cs); ln_val := c |} :: rev (number_from (n + 1) cs) ++ [{| ln_num := n; ln_val := gf_first f |}])
      with (rev [{| ln_num := n + 1 + N.of_nat (length cs); ln_val := c |}] ++ rev (number_from (n + 1) cs) ++ [{| ln_num := n; ln_val := gf_first f |}]).
    rewrite app_assoc, <- rev_app_distr. change [{| ln_num := n; ln_val := gf_first f |}] with (rev [{| ln_num := n; ln_val := gf_first f |}]).
    rewrite <- rev_app_distr, rev_involutive. reflexivity.
Qed.

Lemma finish_para p : forall n, Forall wf_gfield p ->
  map finish_field (map rfield (expected_para n p)) = expected_para n p.
Proof.
  induction p as [|f p IH]; intros n H; [reflexivity|]. inversion H; subst.
  cbn [expected_para map]. rewrite finish_rfield by assumption. f_equal. now apply IH.
Qed.

Lemma flush_para p n : p <> [] -> Forall wf_gfield p ->
  flush (rev (map rfield (expected_para n p)) ++ []) = [expected_para n p].
Proof.
  intros Hne H. rewrite app_nil_r. unfold flush.
  destruct (rev (map rfield (expected_para n p))) eqn:E.
  - apply (f_equal (@length field)) in E. rewrite rev_length, map_length in E. destruct p; [contradiction|discriminate].
  - rewrite <- E, rev_involutive, finish_para by exact H. reflexivity.
Qed.

Definition next_ok (rest : list nline) : Prop :=
  match rest with [] => True | l :: _ => is_decl (ln_val l) = true end.

Lemma blanks_skip k : forall n rest, groups_loop (number_from n (repeat [] k) ++ rest) [] = groups_loop rest [].
Proof. induction k as [|k IH]; intros n rest; [reflexivity|]. cbn [repeat number_from app groups_loop ln_val]. apply IH. Qed.

Lemma blanks_flush k n f fs rest : (0 < k)%nat -> next_ok rest ->
  groups_loop (number_from n (repeat [] k) ++ rest) (f :: fs) =
  rmap (fun gs => flush (f :: fs) ++ gs) (groups_loop rest []).
Proof.
  intros Hk Hn. destruct k as [|k]; [lia|]. cbn [repeat number_from app groups_loop ln_val].
  change (is_blank []) with true. cbv iota.
  assert (Hab : match number_from (n + 1) (repeat [] k) ++ rest with
                | nxt :: _ => negb (is_decl (ln_val nxt)) && negb (is_blank (ln_val nxt)) | [] => false end = false).
  { destruct k as [|k]; cbn [repeat number_from app].
    - destruct rest as [|l r]; [reflexivity|]. cbn in Hn. now rewrite Hn.
    - cbn [ln_val]. reflexivity. }
  rewrite Hab. now rewrite blanks_skip.
Qed.

Lemma doc_next_ok ps n : wf_doc ps -> next_ok (number_from n (doc_src ps)).
Proof.
  destruct ps as [|[p k] ps]; [constructor|]. intros (Hne & Hf & _). cbn [doc_src].
  destruct p as [|f p]; [contradiction|]. inversion Hf; subst. cbn [flat_map field_src app number_from next_ok ln_val].
  now destruct (decl_line_facts f n) as (Hd & _).
Qed.

Theorem wf_doc_parses ps : forall n, wf_doc ps ->
  groups_loop (number_from n (doc_src ps)) [] = Ok (expected_doc n ps).
Proof.
  induction ps as [|[p k] ps IH]; intros n Hw; [reflexivity|].
  destruct Hw as (Hne & Hf & Hk & Hw). cbn [doc_src expected_doc].
  rewrite number_from_app, para_step by exact Hf. fold (para_len p).
  destruct (rev (map rfield (expected_para n p)) ++ []) as [|g gs] eqn:E.
  { apply (f_equal (@length field)) in E. rewrite app_nil_r, rev_length, map_length in E. destruct p; [contradiction|discriminate]. }
  destruct (Nat.eq_dec k 0) as [->|Hk0].
  - destruct ps as [|x ps]; [|assert (0 < 0)%nat by (apply Hk; discriminate); lia].
    cbn [repeat app doc_src number_from groups_loop expected_doc]. rewrite <- E, flush_para by assumption. reflexivity.
  - rewrite number_from_app, blanks_flush; [|lia|apply doc_next_ok; exact Hw].
    rewrite repeat_length, IH by exact Hw. cbn [rmap]. rewrite <- E, flush_para by assumption. reflexivity.
Qed.

(* ---------- from text to lines ---------- *)

Lemma text_lines_terminated ls : Forall (no_lb is_lf_cr) ls ->
  text_lines (flat_map (fun l => l ++ [10]) ls) = ls.
Proof.
  unfold text_lines, splitlines_by. induction 1 as [|l ls Hl _ IH]; [reflexivity|].
  cbn [flat_map]. rewrite <- app_assoc, splitlines_aux_run by (assumption || reflexivity).
  cbn [app splitlines_aux andb]. change (is_lf_cr 10) with true. cbv iota.
  rewrite app_nil_r, rev_involutive. f_equal. exact IH.
Qed.

Lemma decl_no_eol f : wf_gfield f -> no_lb is_lf_cr (decl_text f).
Proof.
  intros (Hn & Hg & _ & Hf & _). unfold decl_text, no_lb. repeat (apply Forall_app; split).
  - destruct (gf_name f); [contradiction|]. destruct Hn as [_ Hall]. eapply Forall_impl; [|exact Hall].
    intros x Hx. destruct (alnum_name_char x Hx) as (_ & _ & _ & _ & Hs).
    unfold is_lf_cr. destruct (N.eqb_spec x 10) as [->|]; [discriminate|]. destruct (N.eqb_spec x 13) as [->|]; [discriminate|]. reflexivity.
  - repeat constructor.
  - eapply Forall_impl; [|exact Hg]. intros x Hx. unfold is_blank_tab in Hx.
    apply orb_true_iff in Hx as [Hx|Hx]; apply N.eqb_eq in Hx; subst; reflexivity.
  - exact Hf.
Qed.

Lemma doc_src_no_eol ps : wf_doc ps -> Forall (no_lb is_lf_cr) (doc_src ps).
Proof.
  induction ps as [|[p k] ps IH]; intros Hw; [constructor|]. destruct Hw as (_ & Hf & _ & Hw).
  cbn [doc_src]. repeat (apply Forall_app; split).
  - clear -Hf. induction Hf as [|f p Hf _ IH]; [constructor|]. cbn [flat_map field_src]. constructor; [now apply decl_no_eol|].
    apply Forall_app; split; [|exact IH]. destruct Hf as (_ & _ & _ & _ & Hcs & _).
    eapply Forall_impl; [|exact Hcs]. intros c (_ & _ & Hc). exact Hc.
  - clear. induction k; constructor; [constructor|assumption].
  - now apply IH.
Qed.

Theorem wf_doc_text_parses ps : wf_doc ps -> groups (doc_text ps) = Ok (expected_doc 1 ps).
Proof.
  intros Hw. unfold groups, groups_from_lines, lines_from_text, doc_text.
  rewrite text_lines_terminated by now apply doc_src_no_eol. now apply wf_doc_parses.
Qed.

(* ---------- the content does not depend on the separators ---------- *)

Definition field_content (f : field) : str * list str := (f_name f, map ln_val (f_lines f)).
Definition gfield_content (f : gfield) : str * list str :=
  (expected_name (gf_name f), gf_first f :: gf_conts f).
Definition doc_content (ps : list (gpara * nat)) : list (list (str * list str)) :=
  map (fun pk => map gfield_content (fst pk)) ps.

Lemma number_from_vals n ls : map ln_val (number_from n ls) = ls.
Proof. revert n; induction ls as [|l ls IH]; intros n; cbn [number_from map ln_val]; [reflexivity|now rewrite IH]. Qed.

Lemma expected_para_content p : forall n, map field_content (expected_para n p) = map gfield_content p.
Proof.
  induction p as [|f p IH]; intros n; [reflexivity|]. cbn [expected_para map]. rewrite IH. f_equal.
  unfold field_content, expected_field, gfield_content. cbn [f_name f_lines map ln_val]. now rewrite number_from_vals.
Qed.

Lemma expected_doc_content ps : forall n, map (map field_content) (expected_doc n ps) = doc_content ps.
Proof.
  induction ps as [|[p k] ps IH]; intros n; [reflexivity|]. cbn [expected_doc map doc_content fst].
  rewrite expected_para_content. f_equal. apply IH.
Qed.

Theorem wf_doc_content ps : wf_doc ps ->
  rmap (map (map field_content)) (groups (doc_text ps)) = Ok (doc_content ps).
Proof. intros Hw. rewrite wf_doc_text_parses by exact Hw. cbn [rmap]. now rewrite expected_doc_content. Qed.

(* same paragraphs, other separator lengths: same content *)
Definition same_paragraphs (ps qs : list (gpara * nat)) : Prop := map fst ps = map fst qs.

Lemma doc_content_seps ps qs : same_paragraphs ps qs -> doc_content ps = doc_content qs.
Proof.
  unfold same_paragraphs, doc_content. intros H.
  assert (G : forall xs : list (gpara * nat), map (fun pk => map gfield_content (fst pk)) xs = map (map gfield_content) (map fst xs)) by (intros xs; now rewrite map_map).
  now rewrite !G, H.
Qed.

Theorem separators_irrelevant ps qs : wf_doc ps -> wf_doc qs -> same_paragraphs ps qs ->
  rmap (map (map field_content)) (groups (doc_text ps)) =
  rmap (map (map field_content)) (groups (doc_text qs)).
Proof. intros Hp Hq Hs. rewrite !wf_doc_content by assumption. f_equal. now apply doc_content_seps. Qed.

(* ---------- no final line end ---------- *)

Lemma last_nonempty (ls : list str) d : ls <> [] -> Forall (fun l => l <> []) ls -> last ls d <> [].
Proof.
  induction ls as [|l ls IH]; intros Hne Hf; [contradiction|]. inversion Hf; subst.
  destruct ls as [|l2 ls]; [assumption|]. change (last (l :: l2 :: ls) d) with (last (l2 :: ls) d). apply IH; [discriminate|assumption].
Qed.

Lemma last_app_r {A} (a b : list A) d : b <> [] -> last (a ++ b) d = last b d.
Proof.
  intros Hb. induction a as [|x a IH]; [reflexivity|]. cbn [app]. destruct (a ++ b) eqn:E.
  - apply app_eq_nil in E as [_ E]. contradiction.
  - cbn [last]. exact IH.
Qed.

Lemma cont_nonempty c : is_cont c = true -> c <> [].
Proof. intros H ->. discriminate. Qed.

Lemma para_lines_nonempty p : Forall wf_gfield p -> Forall (fun l : str => l <> []) (flat_map field_src p).
Proof.
  induction 1 as [|f p Hf _ IH]; [constructor|]. cbn [flat_map field_src]. constructor.
  - destruct Hf as (Hn & _). unfold decl_text. destruct (gf_name f); [contradiction|discriminate].
  - apply Forall_app; split; [|exact IH]. destruct Hf as (_ & _ & _ & _ & Hcs & _).
    eapply Forall_impl; [|exact Hcs]. intros c (Hc & _). now apply cont_nonempty.
Qed.

Theorem wf_doc_text_parses_nofinal ps p : wf_doc (ps ++ [(p, 0%nat)]) ->
  groups (join [10] (doc_src (ps ++ [(p, 0%nat)]))) = Ok (expected_doc 1 (ps ++ [(p, 0%nat)])).
Proof.
  intros Hw. unfold groups, groups_from_lines, lines_from_text, text_lines.
  assert (Hsrc : doc_src (ps ++ [(p, 0%nat)]) = doc_src ps ++ flat_map field_src p).
  { clear. induction ps as [|[q k] ps IH]; cbn [app doc_src repeat]; [now rewrite !app_nil_r|]. now rewrite IH, <- !app_assoc. }
  assert (Hp : p <> [] /\ Forall wf_gfield p).
  { clear -Hw. induction ps as [|[q k] ps IH]; [destruct Hw as (H1 & H2 & _); now split|]. apply IH. apply Hw. }
  destruct Hp as [Hpne Hpf].
  assert (Hne : flat_map field_src p <> []) by (destruct p; [contradiction|discriminate]).
  rewrite splitlines_join.
  - now apply wf_doc_parses.
  - reflexivity.
  - now apply doc_src_no_eol.
  - rewrite Hsrc. intros E. apply app_eq_nil in E as [_ E]. contradiction.
  - rewrite Hsrc, last_app_r by exact Hne. apply last_nonempty; [exact Hne|now apply para_lines_nonempty].
Qed.

(* the final line end changes nothing *)
Corollary final_newline_irrelevant ps p : wf_doc (ps ++ [(p, 0%nat)]) ->
  groups (join [10] (doc_src (ps ++ [(p, 0%nat)]))) = groups (doc_text (ps ++ [(p, 0%nat)])).
Proof. intros Hw. now rewrite wf_doc_text_parses_nofinal, wf_doc_text_parses. Qed.
