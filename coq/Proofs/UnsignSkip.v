(* C16: what stands before a clear-signed message - blank lines, any lines that do not start with
   five dashes - does not change what the search finds: the search skips them. *)
From Coq Require Import String.
From Coq Require Import Arith NArith List Bool Lia.
From DI Require Import Result PyStr PyStrFacts Unsign UnsignFacts.
Import ListNotations.
Open Scope N_scope.

Lemma startswith_app_l a : forall b l, startswith (a ++ b) l = true -> startswith a l = true.
Proof.
  induction a as [|x a IH]; intros b l H.
  - destruct l; reflexivity.
  - destruct l as [|y l]; cbn [app startswith] in *; [discriminate|].
    apply andb_true_iff in H. destruct H as [Hx Hr]. rewrite Hx. cbn [andb]. exact (IH b l Hr).
Qed.

Definition no_dashes (l : str) : Prop := startswith dashes5 l = false.

Lemma no_dashes_not_prefixed p rest l :
  p = dashes5 ++ rest -> no_dashes l -> strip_prefix p l = None.
Proof.
  intros -> H. unfold strip_prefix.
  destruct (startswith (dashes5 ++ rest) l) eqn:E; [|reflexivity].
  apply startswith_app_l in E. unfold no_dashes in H. congruence.
Qed.

Lemma no_dashes_not_begin l : no_dashes l -> is_begin_signed l = false.
Proof.
  intro H. unfold is_begin_signed.
  rewrite (no_dashes_not_prefixed begin_signed (lit "BEGIN PGP SIGNED MESSAGE-----") l); [reflexivity|reflexivity|exact H].
Qed.

Lemma no_dashes_no_armor l : no_dashes l -> armor_begin l = None.
Proof.
  intro H. unfold armor_begin.
  rewrite (no_dashes_not_prefixed (lit "-----BEGIN PGP ") (lit "BEGIN PGP ") l); [reflexivity|reflexivity|exact H].
Qed.

Lemma search_skips_line l rest : no_dashes l -> pgp_search_lines (l :: rest) = pgp_search_lines rest.
Proof.
  intro H. cbn [pgp_search_lines].
  unfold signed_match. rewrite (no_dashes_not_begin l H).
  unfold armor_match. rewrite (no_dashes_no_armor l H). reflexivity.
Qed.

Theorem search_skips_lines pre ls : Forall no_dashes pre -> pgp_search_lines (pre ++ ls) = pgp_search_lines ls.
Proof.
  induction 1 as [|l pre Hl _ IH]; [reflexivity|].
  cbn [app]. rewrite search_skips_line by exact Hl. exact IH.
Qed.

(* blank lines - white space, then the line end - hold no dashes *)
Lemma blank_no_dashes l : (forall c, In c l -> c <> 45) -> no_dashes l.
Proof.
  intro H. unfold no_dashes, dashes5. destruct l as [|c l]; [reflexivity|].
  cbn [lit]. apply startswith_head_ne. intro E. apply (H c); [left; reflexivity|symmetry; exact E].
Qed.

(* the well-formed message theorems with anything dash-free before the message *)
Corollary wellformed_with_hash_after pre0 l0 h e pre l sig :
  Forall no_dashes pre0 ->
  is_begin_signed l0 = true -> is_hash_line h = true -> is_eol e = true ->
  sig <> [] -> armor_match sig = true -> no_inner_block sig -> ends_lf l = true ->
  pgp_search_lines (pre0 ++ l0 :: h :: e :: pre ++ l :: sig) = Some (Some (concat pre ++ chop_lf l)).
Proof.
  intros H0 H1 H2 H3 H4 H5 H6 H7. rewrite search_skips_lines by exact H0.
  now apply wellformed_with_hash.
Qed.

Corollary wellformed_without_hash_after pre0 l0 e pre l sig :
  Forall no_dashes pre0 ->
  is_begin_signed l0 = true -> is_eol e = true ->
  sig <> [] -> armor_match sig = true -> no_inner_block sig -> ends_lf l = true ->
  pgp_search_lines (pre0 ++ l0 :: e :: pre ++ l :: sig) = Some (Some (concat pre ++ chop_lf l)).
Proof.
  intros H0 H1 H3 H4 H5 H6 H7. rewrite search_skips_lines by exact H0.
  now apply wellformed_without_hash.
Qed.

(* the text cut in lines: LF-terminated lines in front are lines of their own *)
Lemma lf_lines_aux_line l : (forall c, In c l -> c <> 10) -> forall cur t,
  lf_lines_aux cur (l ++ 10 :: t) = (rev cur ++ l ++ [10]) :: lf_lines t.
Proof.
  induction l as [|c l IH]; intros H cur t.
  - cbn [app lf_lines_aux]. rewrite N.eqb_refl. cbn [rev]. reflexivity.
  - cbn [app lf_lines_aux]. destruct (c =? 10) eqn:E.
    + apply N.eqb_eq in E. exfalso. apply (H c); [left; reflexivity|exact E].
    + rewrite IH by (intros x Hx; apply H; right; exact Hx).
      cbn [rev]. rewrite <- !app_assoc. reflexivity.
Qed.

Lemma lf_lines_line l t : (forall c, In c l -> c <> 10) ->
  lf_lines (l ++ 10 :: t) = (l ++ [10]) :: lf_lines t.
Proof. intro H. unfold lf_lines at 1. rewrite lf_lines_aux_line by exact H. reflexivity. Qed.

(* lines of white space before a message: the text-level statement *)
Theorem search_skips_leading_lines ws t :
  Forall (fun l => forall c, In c l -> c <> 10 /\ c <> 45) ws ->
  pgp_search (concat (map (fun l => l ++ [10]) ws) ++ t) = pgp_search t.
Proof.
  intro H. unfold pgp_search. induction H as [|l ws Hl _ IH]; [reflexivity|].
  cbn [map concat]. rewrite <- !app_assoc. cbn [app].
  rewrite lf_lines_line by (intros c Hc; exact (proj1 (Hl c Hc))).
  rewrite search_skips_line; [exact IH|].
  apply blank_no_dashes. intros c Hc. apply in_app_or in Hc. destruct Hc as [Hc|[<-|[]]].
  - exact (proj2 (Hl c Hc)).
  - discriminate.
Qed.

(* ---------- white space around the text does not change whether it is an envelope ---------- *)

Lemma drop_while_app_all p (a b : str) : forallb p a = true -> drop_while p (a ++ b) = drop_while p b.
Proof.
  induction a as [|c a IH]; intro H; [reflexivity|].
  cbn [forallb] in H. apply andb_true_iff in H. destruct H as [Hc Ha].
  cbn [app drop_while]. rewrite Hc. exact (IH Ha).
Qed.

Lemma drop_while_app_stop p (a b : str) : forallb p a = false -> drop_while p (a ++ b) = drop_while p a ++ b.
Proof.
  induction a as [|c a IH]; intro H; [discriminate|].
  cbn [forallb] in H. cbn [app drop_while]. destruct (p c) eqn:Hc; [|reflexivity].
  cbn [andb] in H. exact (IH H).
Qed.

Lemma strip_by_padded p ws t ws' :
  forallb p ws = true -> forallb p ws' = true -> strip_by p (ws ++ t ++ ws') = strip_by p t.
Proof.
  intros H1 H2. unfold strip_by, lstrip_by. rewrite drop_while_app_all by exact H1.
  destruct (forallb p t) eqn:Et.
  - rewrite drop_while_app_all by exact Et.
    assert (E1 : drop_while p ws' = []) by (apply (lstrip_by_all p ws' H2)).
    assert (E2 : drop_while p t = []) by (apply (lstrip_by_all p t Et)).
    rewrite E1, E2. reflexivity.
  - rewrite drop_while_app_stop by exact Et. apply rstrip_by_app_all. exact H2.
Qed.

Theorem is_signed_padded ws t ws' :
  all_space ws = true -> all_space ws' = true -> is_signed (ws ++ t ++ ws') = is_signed t.
Proof.
  intros H1 H2. unfold is_signed, strip. rewrite strip_by_padded by assumption. reflexivity.
Qed.

(* blank lines before a clear-signed message: the same signed text comes out *)
Theorem remove_signature_after_blank_lines ws t c :
  Forall (fun l => forall x, In x l -> is_space x = true /\ x <> 10) ws ->
  is_signed t = true -> pgp_search t = Some (Some c) ->
  remove_signature (concat (map (fun l => l ++ [10]) ws) ++ t) = c
  /\ is_signed (concat (map (fun l => l ++ [10]) ws) ++ t) = true.
Proof.
  intros Hws Hs Hp.
  assert (Hall : all_space (concat (map (fun l => l ++ [10]) ws)) = true).
  { unfold all_space. induction Hws as [|l ws Hl _ IH]; [reflexivity|].
    cbn [map concat]. rewrite !forallb_app. cbn [forallb].
    assert (El : forallb is_space l = true) by (apply forallb_forall; intros x Hx; exact (proj1 (Hl x Hx))).
    apply andb_true_iff. split; [apply andb_true_iff; split; [exact El|reflexivity]|exact IH]. }
  assert (Hsig : is_signed (concat (map (fun l => l ++ [10]) ws) ++ t) = true).
  { rewrite <- (app_nil_r t) at 1. rewrite is_signed_padded; [exact Hs|exact Hall|reflexivity]. }
  split; [|exact Hsig].
  unfold remove_signature. rewrite Hsig. cbn [negb].
  rewrite search_skips_leading_lines, Hp; [reflexivity|].
  apply Forall_forall. intros l Hl x Hx. rewrite Forall_forall in Hws.
  destruct (Hws l Hl x Hx) as [Hsp Hne]. split; [exact Hne|].
  intro E. subst x. vm_compute in Hsp. discriminate.
Qed.

(* ---------- what follows the signature block ---------- *)

Lemma drop_lines_app_stop p (a b : list str) x r :
  drop_lines p a = x :: r -> drop_lines p (a ++ b) = (x :: r) ++ b.
Proof.
  induction a as [|l a IH]; intro H; [discriminate|].
  cbn [drop_lines app] in *. destruct (p l).
  - exact (IH H).
  - injection H as <- <-. reflexivity.
Qed.

(* the armor block at the head of a list of lines is found whatever lines follow it *)
Lemma armor_match_app sig trail : armor_match sig = true -> armor_match (sig ++ trail) = true.
Proof.
  destruct sig as [|l0 rest]; [discriminate|]. cbn [app]. unfold armor_match.
  destruct (armor_begin l0) as [magic|]; [|discriminate].
  destruct (drop_lines is_header_line rest) as [|h1 r1] eqn:E1; [discriminate|].
  rewrite (drop_lines_app_stop _ rest trail h1 r1 E1). cbn [app].
  destruct (is_eol h1).
  - (* the empty line after the headers *)
    destruct r1 as [|b0 r1']; [discriminate|]. cbn [app].
    destruct (is_body_line b0) eqn:Eb0; [|discriminate].
    destruct (drop_lines is_body_line (b0 :: r1')) as [|crc r2] eqn:E2; [discriminate|].
    change (b0 :: r1' ++ trail) with ((b0 :: r1') ++ trail).
    rewrite (drop_lines_app_stop _ (b0 :: r1') trail crc r2 E2). cbn [app].
    destruct r2 as [|endl r3]; [discriminate|]. cbn [app]. exact (fun H => H).
  - destruct (is_body_line h1) eqn:Eb0; [|discriminate].
    destruct (drop_lines is_body_line (h1 :: r1)) as [|crc r2] eqn:E2; [discriminate|].
    change (h1 :: r1 ++ trail) with ((h1 :: r1) ++ trail).
    rewrite (drop_lines_app_stop _ (h1 :: r1) trail crc r2 E2). cbn [app].
    destruct r2 as [|endl r3]; [discriminate|]. cbn [app]. exact (fun H => H).
Qed.

Lemma armor_match_no_dashes l rest : no_dashes l -> armor_match (l :: rest) = false.
Proof. intro H. unfold armor_match. rewrite (no_dashes_no_armor l H). reflexivity. Qed.


(* the armor block read in stages, to say where it stops *)
Definition stage3 (magic : str) (r2 : list str) : bool :=
  match r2 with
  | b0 :: _ =>
      if is_body_line b0 then
        match drop_lines is_body_line r2 with
        | crc :: endl :: _ => is_crc_line crc && startswith (lit "-----END PGP " ++ magic ++ dashes5) endl
        | _ => false
        end
      else false
  | [] => false
  end.
Definition stage2 (magic : str) (r1 : list str) : bool :=
  stage3 magic (match r1 with l :: r => if is_eol l then r else r1 | [] => r1 end).
Definition armor_tail (magic : str) (rest : list str) : bool := stage2 magic (drop_lines is_header_line rest).

Lemma armor_match_tail l0 rest :
  armor_match (l0 :: rest) = match armor_begin l0 with None => false | Some m => armor_tail m rest end.
Proof. reflexivity. Qed.

Lemma Forall_drop_lines (P : str -> Prop) p ls : Forall P ls -> Forall P (drop_lines p ls).
Proof.
  induction 1 as [|l ls Hl H IH]; [constructor|]. cbn [drop_lines].
  destruct (p l); [exact IH|constructor; assumption].
Qed.

Lemma drop_lines_app p (a b : list str) :
  drop_lines p (a ++ b) = match drop_lines p a with [] => drop_lines p b | l => l ++ b end.
Proof.
  induction a as [|l a IH]; [reflexivity|]. cbn [app drop_lines].
  destruct (p l); [exact IH|reflexivity].
Qed.

Lemma no_dashes_not_end magic l : no_dashes l -> startswith (lit "-----END PGP " ++ magic ++ dashes5) l = false.
Proof.
  intro H. destruct (startswith (lit "-----END PGP " ++ magic ++ dashes5) l) eqn:E; [|reflexivity].
  change (lit "-----END PGP " ++ magic ++ dashes5) with (dashes5 ++ (lit "END PGP " ++ magic ++ dashes5)) in E.
  apply startswith_app_l in E. unfold no_dashes in H. congruence.
Qed.

Lemma stage3_dashfree m r2 : Forall no_dashes r2 -> stage3 m r2 = false.
Proof.
  intro H. unfold stage3. destruct r2 as [|b0 r]; [reflexivity|].
  destruct (is_body_line b0); [|reflexivity].
  pose proof (Forall_drop_lines no_dashes is_body_line (b0 :: r) H) as Hd.
  destruct (drop_lines is_body_line (b0 :: r)) as [|crc [|endl r3]]; try reflexivity.
  inversion Hd as [|? ? _ Hd2]. inversion Hd2 as [|? ? He _]. subst.
  rewrite (no_dashes_not_end m endl He). apply andb_false_r.
Qed.

Lemma stage3_app_inv m x trail : Forall no_dashes trail -> stage3 m (x ++ trail) = true -> stage3 m x = true.
Proof.
  intros Ht H. destruct x as [|b0 r].
  - cbn [app] in H. rewrite (stage3_dashfree m trail Ht) in H. discriminate.
  - unfold stage3 in *. cbn [app] in H. destruct (is_body_line b0) eqn:Eb; [|discriminate].
    change (b0 :: r ++ trail) with ((b0 :: r) ++ trail) in H. rewrite drop_lines_app in H.
    destruct (drop_lines is_body_line (b0 :: r)) as [|crc [|endl r3]].
    + pose proof (Forall_drop_lines no_dashes is_body_line trail Ht) as Hd.
      destruct (drop_lines is_body_line trail) as [|crc [|endl r3]]; try discriminate.
      inversion Hd as [|? ? _ Hd2]. inversion Hd2 as [|? ? He _]. subst.
      rewrite (no_dashes_not_end m endl He), andb_false_r in H. discriminate.
    + cbn [app] in H. destruct trail as [|endl tr]; [discriminate|].
      inversion Ht as [|? ? He _]. subst.
      rewrite (no_dashes_not_end m endl He), andb_false_r in H. discriminate.
    + cbn [app] in H. exact H.
Qed.

Lemma stage2_dashfree m r1 : Forall no_dashes r1 -> stage2 m r1 = false.
Proof.
  intro H. unfold stage2. apply stage3_dashfree.
  destruct r1 as [|l r]; [constructor|]. destruct (is_eol l); [inversion H; assumption|exact H].
Qed.

Lemma stage2_app_inv m x trail : Forall no_dashes trail -> stage2 m (x ++ trail) = true -> stage2 m x = true.
Proof.
  intros Ht H. destruct x as [|l r].
  - cbn [app] in H. rewrite (stage2_dashfree m trail Ht) in H. discriminate.
  - unfold stage2 in *. cbn [app] in H. destruct (is_eol l).
    + exact (stage3_app_inv m r trail Ht H).
    + exact (stage3_app_inv m (l :: r) trail Ht H).
Qed.

Lemma armor_tail_app_inv m x trail : Forall no_dashes trail -> armor_tail m (x ++ trail) = true -> armor_tail m x = true.
Proof.
  intros Ht H. unfold armor_tail in *. rewrite drop_lines_app in H.
  destruct (drop_lines is_header_line x) as [|h r] eqn:E.
  - rewrite (stage2_dashfree m _ (Forall_drop_lines no_dashes is_header_line trail Ht)) in H. discriminate.
  - exact (stage2_app_inv m (h :: r) trail Ht H).
Qed.

(* dash-free lines after a list of lines complete no armor block in it *)
Theorem armor_match_app_inv x trail : Forall no_dashes trail -> armor_match (x ++ trail) = true -> armor_match x = true.
Proof.
  intros Ht H. destruct x as [|l0 rest].
  - cbn [app] in H. destruct trail as [|t tr]; [discriminate|].
    inversion Ht as [|? ? Hd _]. subst. rewrite (armor_match_no_dashes t tr Hd) in H. discriminate.
  - cbn [app] in H. rewrite armor_match_tail in *. destruct (armor_begin l0) as [m|]; [|discriminate].
    exact (armor_tail_app_inv m rest trail Ht H).
Qed.

Theorem no_inner_block_trailing sig trail :
  no_inner_block sig -> Forall no_dashes trail -> no_inner_block (sig ++ trail).
Proof.
  intros Hin Htr k Hk. rewrite app_length in Hk.
  destruct (Nat.lt_ge_cases k (length sig)) as [Hlt|Hge].
  - rewrite skipn_app. replace (k - length sig)%nat with 0%nat by lia. cbn [skipn].
    destruct (armor_match (skipn k sig ++ trail)) eqn:E; [|reflexivity].
    apply (armor_match_app_inv _ _ Htr) in E. rewrite (Hin k) in E; [discriminate|lia].
  - rewrite skipn_app, skipn_all2 by exact Hge. cbn [app].
    assert (Hf : Forall no_dashes (skipn (k - length sig) trail)).
    { apply Forall_forall. intros y Hy. rewrite Forall_forall in Htr. apply Htr.
      rewrite <- (firstn_skipn (k - length sig) trail). apply in_or_app. right. exact Hy. }
    destruct (skipn (k - length sig) trail) as [|y r] eqn:E; [reflexivity|].
    apply armor_match_no_dashes. inversion Hf; assumption.
Qed.

(* the well-formed message theorems with dash-free lines before the message and after its signature block *)
Corollary wellformed_with_hash_around pre0 l0 h e pre l sig trail :
  Forall no_dashes pre0 -> Forall no_dashes trail ->
  is_begin_signed l0 = true -> is_hash_line h = true -> is_eol e = true ->
  sig <> [] -> armor_match sig = true -> no_inner_block sig -> ends_lf l = true ->
  pgp_search_lines (pre0 ++ l0 :: h :: e :: pre ++ l :: sig ++ trail) = Some (Some (concat pre ++ chop_lf l)).
Proof.
  intros H0 Ht H1 H2 H3 H4 H5 H6 H7.
  apply wellformed_with_hash_after; try assumption.
  - intro E. apply app_eq_nil in E. destruct E as [E _]. contradiction.
  - apply armor_match_app. exact H5.
  - apply no_inner_block_trailing; assumption.
Qed.

Corollary wellformed_without_hash_around pre0 l0 e pre l sig trail :
  Forall no_dashes pre0 -> Forall no_dashes trail ->
  is_begin_signed l0 = true -> is_eol e = true ->
  sig <> [] -> armor_match sig = true -> no_inner_block sig -> ends_lf l = true ->
  pgp_search_lines (pre0 ++ l0 :: e :: pre ++ l :: sig ++ trail) = Some (Some (concat pre ++ chop_lf l)).
Proof.
  intros H0 Ht H1 H3 H4 H5 H6 H7.
  apply wellformed_without_hash_after; try assumption.
  - intro E. apply app_eq_nil in E. destruct E as [E _]. contradiction.
  - apply armor_match_app. exact H5.
  - apply no_inner_block_trailing; assumption.
Qed.
