(* C16: what stands before a clear-signed message - blank lines, any lines that do not start with
   five dashes - does not change what the search finds: the search skips them. *)
From Coq Require Import String.
From Coq Require Import Arith NArith List Bool Lia.
From DI Require Import Result PyStr PyStrFacts Unsign UnsignFacts.
Import ListNotations.
Open Scope N_scope.

Lemma startswith_app_l a : forall b l, startswith (a ++ b) l = true -> startswith a l = true.
Proof.
  induction a as [|x a IH]; intros b l H.
  - destruct l; reflexivity.
  - destruct l as [|y l]; cbn [app startswith] in *; [discriminate|].
    apply andb_true_iff in H. destruct H as [Hx Hr]. rewrite Hx. cbn [andb]. exact (IH b l Hr).
Qed.

Definition no_dashes (l : str) : Prop := startswith dashes5 l = false.

Lemma no_dashes_not_prefixed p rest l :
  p = dashes5 ++ rest -> no_dashes l -> strip_prefix p l = None.
Proof.
  intros -> H. unfold strip_prefix.
  destruct (startswith (dashes5 ++ rest) l) eqn:E; [|reflexivity].
  apply startswith_app_l in E. unfold no_dashes in H. congruence.
Qed.

Lemma no_dashes_not_begin l : no_dashes l -> is_begin_signed l = false.
Proof.
  intro H. unfold is_begin_signed.
  rewrite (no_dashes_not_prefixed begin_signed (lit "BEGIN PGP SIGNED MESSAGE-----") l); [reflexivity|reflexivity|exact H].
Qed.

Lemma no_dashes_no_armor l : no_dashes l -> armor_begin l = None.
Proof.
  intro H. unfold armor_begin.
  rewrite (no_dashes_not_prefixed (lit "-----BEGIN PGP ") (lit "BEGIN PGP ") l); [reflexivity|reflexivity|exact H].
Qed.

Lemma search_skips_line l rest : no_dashes l -> pgp_search_lines (l :: rest) = pgp_search_lines rest.
Proof.
  intro H. cbn [pgp_search_lines].
  unfold signed_match. rewrite (no_dashes_not_begin l H).
  unfold armor_match. rewrite (no_dashes_no_armor l H). reflexivity.
Qed.

Theorem search_skips_lines pre ls : Forall no_dashes pre -> pgp_search_lines (pre ++ ls) = pgp_search_lines ls.
Proof.
  induction 1 as [|l pre Hl _ IH]; [reflexivity|].
  cbn [app]. rewrite search_skips_line by exact Hl. exact IH.
Qed.

(* blank lines - white space, then the line end - hold no dashes *)
Lemma blank_no_dashes l : (forall c, In c l -> c <> 45) -> no_dashes l.
Proof.
  intro H. unfold no_dashes, dashes5. destruct l as [|c l]; [reflexivity|].
  cbn [lit]. apply startswith_head_ne. intro E. apply (H c); [left; reflexivity|symmetry; exact E].
Qed.

(* the well-formed message theorems with anything dash-free before the message *)
Corollary wellformed_with_hash_after pre0 l0 h e pre l sig :
  Forall no_dashes pre0 ->
  is_begin_signed l0 = true -> is_hash_line h = true -> is_eol e = true ->
  sig <> [] -> armor_match sig = true -> no_inner_block sig -> ends_lf l = true ->
  pgp_search_lines (pre0 ++ l0 :: h :: e :: pre ++ l :: sig) = Some (Some (concat pre ++ chop_lf l)).
Proof.
  intros H0 H1 H2 H3 H4 H5 H6 H7. rewrite search_skips_lines by exact H0.
  now apply wellformed_with_hash.
Qed.

Corollary wellformed_without_hash_after pre0 l0 e pre l sig :
  Forall no_dashes pre0 ->
  is_begin_signed l0 = true -> is_eol e = true ->
  sig <> [] -> armor_match sig = true -> no_inner_block sig -> ends_lf l = true ->
  pgp_search_lines (pre0 ++ l0 :: e :: pre ++ l :: sig) = Some (Some (concat pre ++ chop_lf l)).
Proof.
  intros H0 H1 H3 H4 H5 H6 H7. rewrite search_skips_lines by exact H0.
  now apply wellformed_without_hash.
Qed.

(* the text cut in lines: LF-terminated lines in front are lines of their own *)
Lemma lf_lines_aux_line l : (forall c, In c l -> c <> 10) -> forall cur t,
  lf_lines_aux cur (l ++ 10 :: t) = (rev cur ++ l ++ [10]) :: lf_lines t.
Proof.
  induction l as [|c l IH]; intros H cur t.
  - cbn [app lf_lines_aux]. rewrite N.eqb_refl. cbn [rev]. reflexivity.
  - cbn [app lf_lines_aux]. destruct (c =? 10) eqn:E.
    + apply N.eqb_eq in E. exfalso. apply (H c); [left; reflexivity|exact E].
    + rewrite IH by (intros x Hx; apply H; right; exact Hx).
      cbn [rev]. rewrite <- !app_assoc. reflexivity.
Qed.

Lemma lf_lines_line l t : (forall c, In c l -> c <> 10) ->
  lf_lines (l ++ 10 :: t) = (l ++ [10]) :: lf_lines t.
Proof. intro H. unfold lf_lines at 1. rewrite lf_lines_aux_line by exact H. reflexivity. Qed.

(* lines of white space before a message: the text-level statement *)
Theorem search_skips_leading_lines ws t :
  Forall (fun l => forall c, In c l -> c <> 10 /\ c <> 45) ws ->
  pgp_search (concat (map (fun l => l ++ [10]) ws) ++ t) = pgp_search t.
Proof.
  intro H. unfold pgp_search. induction H as [|l ws Hl _ IH]; [reflexivity|].
  cbn [map concat]. rewrite <- !app_assoc. cbn [app].
  rewrite lf_lines_line by (intros c Hc; exact (proj1 (Hl c Hc))).
  rewrite search_skips_line; [exact IH|].
  apply blank_no_dashes. intros c Hc. apply in_app_or in Hc. destruct Hc as [Hc|[<-|[]]].
  - exact (proj2 (Hl c Hc)).
  - discriminate.
Qed.

(* ---------- white space around the text does not change whether it is an envelope ---------- *)

Lemma drop_while_app_all p (a b : str) : forallb p a = true -> drop_while p (a ++ b) = drop_while p b.
Proof.
  induction a as [|c a IH]; intro H; [reflexivity|].
  cbn [forallb] in H. apply andb_true_iff in H. destruct H as [Hc Ha].
  cbn [app drop_while]. rewrite Hc. exact (IH Ha).
Qed.

Lemma drop_while_app_stop p (a b : str) : forallb p a = false -> drop_while p (a ++ b) = drop_while p a ++ b.
Proof.
  induction a as [|c a IH]; intro H; [discriminate|].
  cbn [forallb] in H. cbn [app drop_while]. destruct (p c) eqn:Hc; [|reflexivity].
  cbn [andb] in H. exact (IH H).
Qed.

Lemma strip_by_padded p ws t ws' :
  forallb p ws = true -> forallb p ws' = true -> strip_by p (ws ++ t ++ ws') = strip_by p t.
Proof.
  intros H1 H2. unfold strip_by, lstrip_by. rewrite drop_while_app_all by exact H1.
  destruct (forallb p t) eqn:Et.
  - rewrite drop_while_app_all by exact Et.
    assert (E1 : drop_while p ws' = []) by (apply (lstrip_by_all p ws' H2)).
    assert (E2 : drop_while p t = []) by (apply (lstrip_by_all p t Et)).
    rewrite E1, E2. reflexivity.
  - rewrite drop_while_app_stop by exact Et. apply rstrip_by_app_all. exact H2.
Qed.

Theorem is_signed_padded ws t ws' :
  all_space ws = true -> all_space ws' = true -> is_signed (ws ++ t ++ ws') = is_signed t.
Proof.
  intros H1 H2. unfold is_signed, strip. rewrite strip_by_padded by assumption. reflexivity.
Qed.

(* blank lines before a clear-signed message: the same signed text comes out *)
Theorem remove_signature_after_blank_lines ws t c :
  Forall (fun l => forall x, In x l -> is_space x = true /\ x <> 10) ws ->
  is_signed t = true -> pgp_search t = Some (Some c) ->
  remove_signature (concat (map (fun l => l ++ [10]) ws) ++ t) = c
  /\ is_signed (concat (map (fun l => l ++ [10]) ws) ++ t) = true.
Proof.
  intros Hws Hs Hp.
  assert (Hall : all_space (concat (map (fun l => l ++ [10]) ws)) = true).
  { unfold all_space. induction Hws as [|l ws Hl _ IH]; [reflexivity|].
    cbn [map concat]. rewrite !forallb_app. cbn [forallb].
    assert (El : forallb is_space l = true) by (apply forallb_forall; intros x Hx; exact (proj1 (Hl x Hx))).
    apply andb_true_iff. split; [apply andb_true_iff; split; [exact El|reflexivity]|exact IH]. }
  assert (Hsig : is_signed (concat (map (fun l => l ++ [10]) ws) ++ t) = true).
  { rewrite <- (app_nil_r t) at 1. rewrite is_signed_padded; [exact Hs|exact Hall|reflexivity]. }
  split; [|exact Hsig].
  unfold remove_signature. rewrite Hsig. cbn [negb].
  rewrite search_skips_leading_lines, Hp; [reflexivity|].
  apply Forall_forall. intros l Hl x Hx. rewrite Forall_forall in Hws.
  destruct (Hws l Hl x Hx) as [Hsp Hne]. split; [exact Hne|].
  intro E. subst x. vm_compute in Hsp. discriminate.
Qed.
