(* Proofs for C16: the result of remove_signature is a contiguous part of the input. *)
From Coq Require Import String.
From Coq Require Import Arith NArith List Bool Lia.
From DI Require Import Result PyStr PyStrFacts Unsign.
Import ListNotations.
Open Scope N_scope.

Lemma lf_lines_aux_concat s : forall cur, concat (lf_lines_aux cur s) = rev cur ++ s.
Proof.
  induction s as [|c s IH]; intros cur; cbn [lf_lines_aux].
  - destruct cur as [|x cur]; [reflexivity|]. cbn [concat]. now rewrite !app_nil_r.
  - destruct (c =? 10).
    + cbn [concat]. rewrite (IH []). cbn [rev app]. now rewrite <- app_assoc.
    + rewrite (IH (c :: cur)). cbn [rev]. now rewrite <- app_assoc.
Qed.

Lemma lf_lines_concat s : concat (lf_lines s) = s.
Proof. apply (lf_lines_aux_concat s []). Qed.

Definition part_of (c t : str) : Prop := exists a b, t = a ++ c ++ b.

Lemma chop_lf_prefix l : exists r, l = chop_lf l ++ r.
Proof.
  unfold chop_lf. destruct (rev l) as [|x r] eqn:E; [exists []; now rewrite app_nil_r|].
  destruct (N.eqb_spec x 10) as [->|Hn].
  - exists [10]. rewrite <- (rev_involutive l), E. reflexivity.
  - exists []. rewrite app_nil_r.
    destruct x as [|p]; [reflexivity|]. repeat (destruct p as [p|p|]; try reflexivity); contradiction.
Qed.

Lemma clear_search_part ls : forall acc c,
  clear_search acc ls = Some c -> exists b, concat (rev acc) ++ concat ls = c ++ b.
Proof.
  induction ls as [|l rest IH]; intros acc c H; [discriminate|].
  cbn [clear_search] in H. destruct rest as [|l2 rest']; [discriminate|].
  destruct (clear_search (l :: acc) (l2 :: rest')) as [c'|] eqn:E.
  - inversion H; subst. destruct (IH _ _ E) as (b & Hb). exists b. rewrite <- Hb. cbn [rev concat].
    rewrite concat_app. cbn [concat]. now rewrite app_nil_r, <- app_assoc.
  - destruct (armor_match (l2 :: rest') && _); [|discriminate]. inversion H; subst.
    destruct (chop_lf_prefix l) as (r & Er). exists (r ++ concat (l2 :: rest')).
    cbn [concat]. rewrite Er at 1. now rewrite <- !app_assoc.
Qed.

Lemma signed_match_part ls c : signed_match ls = Some c -> part_of c (concat ls).
Proof.
  unfold signed_match. destruct ls as [|l0 body]; [discriminate|].
  destruct (is_begin_signed l0); [|discriminate]. intros H.
  assert (G : forall pre rest, body = pre ++ rest -> clear_search [] rest = Some c -> part_of c (concat (l0 :: body))).
  { intros pre rest -> Hc. destruct (clear_search_part _ _ _ Hc) as (b & Hb). cbn in Hb.
    exists (l0 ++ concat pre), b. cbn [concat]. rewrite concat_app, Hb. now rewrite <- !app_assoc. }
  destruct body as [|h body1].
  - cbn in H. discriminate.
  - destruct body1 as [|e rest].
    + (* one line after the armor line *)
      destruct (is_eol h).
      * destruct (clear_search [] []) eqn:E0; [cbn in E0; discriminate|]. cbn in H. discriminate.
      * cbn in H. discriminate.
    + destruct (is_hash_line h && is_eol e) eqn:Ea.
      * destruct (clear_search [] rest) as [c1|] eqn:E1.
        -- inversion H; subst. apply (G [h; e] rest); [reflexivity|exact E1].
        -- destruct (is_eol h).
           ++ destruct (clear_search [] (e :: rest)) as [c2|] eqn:E2.
              ** inversion H; subst. apply (G [h] (e :: rest)); [reflexivity|exact E2].
              ** apply (G [] (h :: e :: rest)); [reflexivity|exact H].
           ++ apply (G [] (h :: e :: rest)); [reflexivity|exact H].
      * destruct (is_eol h).
        -- destruct (clear_search [] (e :: rest)) as [c2|] eqn:E2.
           ++ inversion H; subst. apply (G [h] (e :: rest)); [reflexivity|exact E2].
           ++ apply (G [] (h :: e :: rest)); [reflexivity|exact H].
        -- apply (G [] (h :: e :: rest)); [reflexivity|exact H].
Qed.

Lemma pgp_search_part ls : forall c, pgp_search_lines ls = Some (Some c) -> part_of c (concat ls).
Proof.
  induction ls as [|l rest IH]; intros c H; [discriminate|].
  cbn [pgp_search_lines] in H. destruct (signed_match (l :: rest)) as [c'|] eqn:E.
  - inversion H; subst. now apply signed_match_part.
  - destruct (armor_match (l :: rest)); [discriminate|].
    destruct (IH c H) as (a & b & Hab). exists (l ++ a), b. cbn [concat]. rewrite Hab. now rewrite <- app_assoc.
Qed.

(* the result is always a string that is a contiguous part of the input *)
Theorem remove_signature_contiguous t : part_of (remove_signature t) t.
Proof.
  unfold remove_signature. destruct (negb (is_signed t)); [exists [], []; now rewrite app_nil_r|].
  destruct (pgp_search t) as [[c|]|] eqn:E; try (exists [], []; now rewrite app_nil_r).
  unfold pgp_search in E. pose proof (pgp_search_part _ _ E) as H. now rewrite lf_lines_concat in H.
Qed.

(* without a clear-sign envelope the text is returned unchanged *)
Theorem no_envelope_identity t : is_signed t = false -> remove_signature t = t.
Proof. intros H. unfold remove_signature. now rewrite H. Qed.

(* a matched envelope without readable signed message returns the text *)
Theorem armor_only_identity t : pgp_search t = Some None -> remove_signature t = t.
Proof. intros H. unfold remove_signature. rewrite H. now destruct (negb (is_signed t)). Qed.

(* ---------- well-formed clear-signed messages ---------- *)

Definition ends_lf (l : str) : bool := match rev l with 10 :: _ => true | _ => false end.

(* no armor block starts strictly inside [sig] *)
Definition no_inner_block (sig : list str) : Prop :=
  forall k, (0 < k < length sig)%nat -> armor_match (skipn k sig) = false.

Lemma clear_search_step acc l x rest :
  clear_search acc (l :: x :: rest) =
  match clear_search (l :: acc) (x :: rest) with
  | Some c => Some c
  | None => if armor_match (x :: rest) && ends_lf l then Some (concat (rev acc) ++ chop_lf l) else None
  end.
Proof. reflexivity. Qed.

Lemma clear_search_none sig : forall acc,
  (forall k, (0 < k <= length sig)%nat -> armor_match (skipn k sig) = false) -> clear_search acc sig = None.
Proof.
  induction sig as [|s sig IH]; intros acc H; [reflexivity|]. cbn [clear_search].
  destruct sig as [|s2 sig']; [reflexivity|].
  rewrite IH.
  - assert (H1 : armor_match (skipn 1 (s :: s2 :: sig')) = false) by (apply H; cbn; lia).
    cbn [skipn] in H1. now rewrite H1.
  - intros k Hk. apply (H (S k)). cbn [length] in *. lia.
Qed.

Lemma clear_search_found sig l : sig <> [] -> armor_match sig = true -> no_inner_block sig -> ends_lf l = true ->
  forall pre acc, clear_search acc (pre ++ l :: sig) = Some (concat (rev acc) ++ concat pre ++ chop_lf l).
Proof.
  intros Hne Ham Hin Hl. induction pre as [|p pre IH]; intros acc.
  - cbn [app concat]. destruct sig as [|s sig']; [contradiction|]. rewrite clear_search_step.
    rewrite clear_search_none.
    + rewrite Ham, Hl. reflexivity.
    + intros k Hk. destruct (Nat.eq_dec k (length (s :: sig'))) as [->|Hneq].
      * rewrite skipn_all. reflexivity.
      * apply Hin. lia.
  - cbn [app]. assert (Hex : exists x rest, pre ++ l :: sig = x :: rest) by (destruct pre; eexists; eexists; reflexivity).
    destruct Hex as (x & rest & E). specialize (IH (p :: acc)). rewrite E in IH |- *.
    rewrite clear_search_step, IH. cbn [rev concat]. rewrite concat_app. cbn [concat].
    now rewrite app_nil_r, <- !app_assoc.
Qed.

Lemma eol_not_hash e : is_eol e = true -> is_hash_line e = false.
Proof.
  unfold is_eol. intros H. apply orb_true_iff in H as [H|H]; apply str_eqb_eq in H; subst; reflexivity.
Qed.

(* with a Hash header: BEGIN line, Hash line, empty line, the signed text, the signature block *)
Theorem wellformed_with_hash l0 h e pre l sig :
  is_begin_signed l0 = true -> is_hash_line h = true -> is_eol e = true ->
  sig <> [] -> armor_match sig = true -> no_inner_block sig -> ends_lf l = true ->
  pgp_search_lines (l0 :: h :: e :: pre ++ l :: sig) = Some (Some (concat pre ++ chop_lf l)).
Proof.
  intros H0 Hh He Hne Ham Hin Hl. cbn [pgp_search_lines signed_match]. rewrite H0, Hh, He. cbn [andb].
  now rewrite (clear_search_found sig l Hne Ham Hin Hl pre []).
Qed.

(* without Hash header: BEGIN line, empty line, the signed text, the signature block *)
Theorem wellformed_without_hash l0 e pre l sig :
  is_begin_signed l0 = true -> is_eol e = true ->
  sig <> [] -> armor_match sig = true -> no_inner_block sig -> ends_lf l = true ->
  pgp_search_lines (l0 :: e :: pre ++ l :: sig) = Some (Some (concat pre ++ chop_lf l)).
Proof.
  intros H0 He Hne Ham Hin Hl. cbn [pgp_search_lines signed_match]. rewrite H0.
  assert (Ea : (match e :: pre ++ l :: sig with
                | h :: e0 :: rest => if is_hash_line h && is_eol e0 then clear_search [] rest else None
                | _ => None end) = None).
  { destruct (pre ++ l :: sig); [reflexivity|]. now rewrite (eol_not_hash e He). }
  rewrite Ea, He. now rewrite (clear_search_found sig l Hne Ham Hin Hl pre []).
Qed.

(* the returned text is the signed body: the lines of the text joined, without the line end
   that precedes the signature block (for CRLF input the carriage return of that line end remains) *)
Lemma chop_lf_snoc x : chop_lf (x ++ [10]) = x.
Proof. unfold chop_lf. rewrite rev_app_distr. cbn. now rewrite rev_involutive. Qed.
