(* Proofs for C09: classification, typed fields of paragraphs without repeated names, the
   copyright statement converter, validity. *)
From Coq Require Import String.
From Coq Require Import Arith NArith List Bool Lia.
From DI Require Import Result PyStr PyStrFacts Codec Deb822 Deb822Facts Debcon Copyright CopyrightFacts ParseFacts DepsParseFacts
  Grammar822Header.
Import ListNotations.
Open Scope N_scope.

(* ---------- words ---------- *)

Definition word (w : str) : Prop := w <> [] /\ nospace w.

Lemma split_ws_aux_words s : forall cur, nospace cur -> Forall word (split_ws_aux cur s).
Proof.
  induction s as [|c s IH]; intros cur Hc; cbn [split_ws_aux].
  - destruct cur as [|x cur]; [constructor|]. constructor; [|constructor]. split.
    + intros E. apply (f_equal (@rev char)) in E. rewrite rev_involutive in E. discriminate.
    + apply Forall_rev. exact Hc.
  - destruct (is_space c) eqn:Es.
    + destruct cur as [|x cur]; [apply IH; constructor|]. constructor; [|apply IH; constructor]. split.
      * intros E. apply (f_equal (@rev char)) in E. rewrite rev_involutive in E. discriminate.
      * apply Forall_rev. exact Hc.
    + apply IH. constructor; assumption.
Qed.

Lemma split_ws_words s : Forall word (split_ws s).
Proof. apply split_ws_aux_words. constructor. Qed.

Lemma join_words_head ws : ws <> [] -> Forall word ws -> exists c r, join [32] ws = c :: r /\ is_space c = false.
Proof.
  intros Hne H. destruct ws as [|w ws]; [contradiction|]. inversion H as [|? ? [Hw Hn] _]; subst.
  destruct w as [|c w]; [contradiction|]. inversion Hn; subst. destruct ws as [|w2 ws].
  - exists c, w. split; [reflexivity|assumption].
  - rewrite join_cons. exists c, (w ++ [32] ++ join [32] (w2 :: ws)). split; [reflexivity|assumption].
Qed.

Lemma join_words_last ws : ws <> [] -> Forall word ws -> exists a c, join [32] ws = a ++ [c] /\ is_space c = false.
Proof.
  intros Hne H. induction ws as [|w ws IH]; [contradiction|]. inversion H as [|? ? [Hw Hn] Hws]; subst.
  destruct ws as [|w2 ws].
  - destruct (exists_last Hw) as (a & c & E). exists a, c. split; [exact E|].
    rewrite E in Hn. apply Forall_app in Hn as [_ Hn]. now inversion Hn.
  - destruct (IH ltac:(discriminate) Hws) as (a & c & E & Hc). rewrite join_cons, E.
    exists (w ++ [32] ++ a), c. split; [now rewrite <- !app_assoc|exact Hc].
Qed.

Lemma strip_join_words ws : Forall word ws -> strip (join [32] ws) = join [32] ws.
Proof.
  intros H. destruct ws as [|w ws]; [reflexivity|].
  destruct (join_words_head (w :: ws) ltac:(discriminate) H) as (c & r & E & Hc).
  destruct (join_words_last (w :: ws) ltac:(discriminate) H) as (a & x & E2 & Hx).
  unfold strip. apply strip_by_fixed; [rewrite E; exact Hc|]. rewrite E2. now apply rstrip_by_snoc_keep.
Qed.

(* ---------- the copyright statement converter, for every value ---------- *)

Theorem statement_spec v :
  statement_from_value v =
  match split_ws v with
  | [] => ([], [])
  | w :: rest => if is_year_range w then (w, join [32] rest) else ([], join [32] (w :: rest))
  end.
Proof.
  unfold statement_from_value. pose proof (split_ws_words v) as H. destruct (split_ws v) as [|w ws]; [reflexivity|].
  inversion H as [|? ? [Hw Hn] Hws]; subst.
  assert (Hno : ~ In 32 w). { intros Hi. unfold nospace in Hn. rewrite Forall_forall in Hn. specialize (Hn _ Hi). discriminate. }
  assert (Hsw : strip w = w) by now apply nospace_strip.
  destruct ws as [|w2 ws].
  - cbn [join]. rewrite partition_char_absent by exact Hno. rewrite Hsw. reflexivity.
  - rewrite join_cons. change ([32] ++ join [32] (w2 :: ws)) with (32 :: join [32] (w2 :: ws)).
    rewrite partition_char_app by exact Hno. rewrite Hsw, strip_join_words by exact Hws. reflexivity.
Qed.

(* a value "years holder words": the year range and the holder are what was written *)
Corollary statement_year_holder y hs : word y -> is_year_range y = true -> Forall word hs ->
  statement_from_value (join [32] (y :: hs)) = (y, join [32] hs).
Proof.
  intros Hy Hr Hh. rewrite statement_spec.
  assert (E : split_ws (join [32] (y :: hs)) = y :: hs).
  { clear Hr. revert y Hy. induction hs as [|h hs IH]; intros y [Hy Hn].
    - cbn [join]. now apply split_ws_word_end.
    - inversion Hh as [|? ? Hh1 Hh2]; subst. rewrite join_cons. unfold split_ws.
      rewrite split_ws_token by exact Hn. rewrite app_nil_r.
      rewrite (split_ws_space_flush [32] (rev y)); [|repeat constructor|discriminate|].
      + rewrite rev_involutive. f_equal. now apply IH.
      + intros E. apply (f_equal (@rev char)) in E. rewrite rev_involutive in E. contradiction. }
  rewrite E, Hr. reflexivity.
Qed.

Corollary statement_no_year w hs : word w -> is_year_range w = false -> Forall word hs ->
  statement_from_value (join [32] (w :: hs)) = ([], join [32] (w :: hs)).
Proof.
  intros Hy Hr Hh. rewrite statement_spec.
  assert (E : split_ws (join [32] (w :: hs)) = w :: hs).
  { clear Hr. revert w Hy. induction hs as [|h hs IH]; intros y [Hy Hn].
    - cbn [join]. now apply split_ws_word_end.
    - inversion Hh as [|? ? Hh1 Hh2]; subst. rewrite join_cons. unfold split_ws.
      rewrite split_ws_token by exact Hn. rewrite app_nil_r.
      rewrite (split_ws_space_flush [32] (rev y)); [|repeat constructor|discriminate|].
      + rewrite rev_involutive. f_equal. now apply IH.
      + intros E. apply (f_equal (@rev char)) in E. rewrite rev_involutive in E. contradiction. }
  rewrite E, Hr. reflexivity.
Qed.

(* ---------- classification ---------- *)

Definition has_name (n : str) (fs : list field) : Prop := exists f, In f fs /\ f_name f = n.

Lemma has_name_b n fs : existsb (fun f => str_eqb (f_name f) n) fs = true <-> has_name n fs.
Proof.
  rewrite existsb_exists. split; intros (f & Hf & E); exists f; (split; [exact Hf|]); now apply str_eqb_eq.
Qed.

Theorem classify_spec fs :
  ((has_name (lit "format") fs \/ has_name (lit "format-specification") fs) -> classify fs = PHeader) /\
  (~ has_name (lit "format") fs -> ~ has_name (lit "format-specification") fs ->
     (has_name (lit "files") fs -> classify fs = PFiles) /\
     (~ has_name (lit "files") fs ->
        (has_name (lit "license") fs -> classify fs = PLicense) /\
        (~ has_name (lit "license") fs -> classify fs = PCatchAll))).
Proof.
  unfold classify.
  assert (T : forall n, existsb (fun f => str_eqb (f_name f) n) fs = true -> has_name n fs) by (intros n; apply has_name_b).
  assert (F : forall n, ~ has_name n fs -> existsb (fun f => str_eqb (f_name f) n) fs = false).
  { intros n Hn. destruct (existsb _ fs) eqn:E; [|reflexivity]. exfalso. now apply Hn, has_name_b. }
  assert (T' : forall n, has_name n fs -> existsb (fun f => str_eqb (f_name f) n) fs = true) by (intros n; apply has_name_b).
  split.
  - intros [H|H]; rewrite (T' _ H); [reflexivity|now rewrite orb_true_r].
  - intros H1 H2. rewrite (F _ H1), (F _ H2). cbn [orb]. split.
    + intros H. now rewrite (T' _ H).
    + intros H3. rewrite (F _ H3). split.
      * intros H. now rewrite (T' _ H).
      * intros H4. now rewrite (F _ H4).
Qed.

(* ---------- the type and the field list of a built paragraph ---------- *)

Lemma from_fields_shape t fs p : from_fields t fs = Ok p ->
  p_type p = t /\ map fst (p_fields p) = map fst (known_fields t).
Proof.
  unfold from_fields. destruct (add_fields t _ _ fs) as [b|e]; cbn [bind]; [|discriminate].
  intros H. apply Ok_inj in H. subst p. unfold build_para. cbn [p_type p_fields]. split; [reflexivity|].
  rewrite map_map. reflexivity.
Qed.

(* ---------- no recovery rewrite applies without catch-all paragraphs ---------- *)

Lemma merge_unknown_id ps : forall n, Forall (fun p => is_catchall p = false) ps -> merge_unknown n ps = ps.
Proof.
  induction ps as [|p ps IH]; intros n H; destruct n as [|n]; try reflexivity.
  inversion H as [|? ? Hp Hps]; subst. cbn [merge_unknown]. rewrite Hp. f_equal. now apply IH.
Qed.

Lemma fold_list_id ps : Forall (fun p => is_catchall p = false) ps -> fold_list ps = ps.
Proof.
  induction 1 as [|p ps Hp Hps IH]; [reflexivity|]. destruct ps as [|p2 ps]; [reflexivity|].
  change (fold_list (p :: p2 :: ps)) with (if foldable p p2 then fold_pair p p2 :: fold_list ps else p :: fold_list (p2 :: ps)).
  inversion Hps as [|? ? Hp2 _]; subst. unfold foldable. rewrite Hp2, andb_false_r. cbn [andb]. now rewrite IH.
Qed.

Lemma mapM_shape {A B} (f : A -> result B) (g : A -> B -> Prop) l : forall ys,
  (forall x y, f x = Ok y -> g x y) -> mapM f l = Ok ys -> Forall2 g l ys.
Proof.
  induction l as [|x l IH]; intros ys Hg H; cbn [mapM] in H.
  - apply Ok_inj in H. subst. constructor.
  - destruct (f x) as [y|e] eqn:Ey; cbn [bind] in H; [|discriminate].
    destruct (mapM f l) as [ys'|e] eqn:El; cbn [bind] in H; [|discriminate]. apply Ok_inj in H. subst ys.
    constructor; [now apply Hg|]. now apply IH.
Qed.

(* one paragraph per group, in order, typed by classification *)
Theorem paragraph_per_group gs ps : from_groups gs = Ok ps ->
  Forall (fun g => classify g <> PCatchAll) gs ->
  Forall2 (fun g p => from_fields (classify g) g = Ok p /\ p_type p = classify g) gs ps.
Proof.
  unfold from_groups. destruct (mapM _ gs) as [ps0|e] eqn:E; cbn [bind]; [|discriminate]. intros H Hc. apply Ok_inj in H.
  assert (F2 : Forall2 (fun g p => from_fields (classify g) g = Ok p /\ p_type p = classify g) gs ps0).
  { eapply mapM_shape; [|exact E]. intros g p Hp. split; [exact Hp|]. now apply from_fields_shape in Hp. }
  assert (Hnc : Forall (fun p => is_catchall p = false) ps0).
  { clear -F2 Hc. induction F2 as [|g p gs ps [_ Ht] _ IH]; [constructor|]. inversion Hc; subst. constructor; [|now apply IH].
    unfold is_catchall. rewrite Ht. destruct (classify g); try reflexivity. contradiction. }
  rewrite merge_unknown_id in H by exact Hnc. unfold fold_license in H.
  rewrite fold_list_id in H by exact Hnc. destruct (Nat.leb _ 2) in H; subst; exact F2.
Qed.

(* ---------- routing of the fields of a paragraph without repeated names ---------- *)

Definition fname (f : field) : str := replace_char 45 95 (f_name f).
Definition fvalue (f : field) : str := lstrip (field_text f).
Definition live (fs : list field) : list field := filter (fun f => nonempty (field_text f)) fs.
Definition route (t : ptype) (ae : bool) (f : field) : bool := negb ae && known_name t (fname f).
Definition range_of (f : field) : N * N := (first_content_line f, last_line f).

Lemma dict_get_absent {V} k (d : pydict V) : ~ In k (keys d) -> dict_get k d = None.
Proof.
  induction d as [|[a b] d IH]; [reflexivity|]. cbn [keys map fst In dict_get]. intros H.
  destruct (str_eqb k a) eqn:E; [apply str_eqb_eq in E; subst; exfalso; apply H; now left|]. apply IH. intros Hi. apply H. now right.
Qed.

Lemma has_key_absent {V} k (d : pydict V) : ~ In k (keys d) -> has_key k d = false.
Proof. intros H. unfold has_key. now rewrite dict_get_absent. Qed.

Lemma keys_app {V} (a b : pydict V) : keys (a ++ b) = keys a ++ keys b.
Proof. unfold keys. apply map_app. Qed.

Definition sub_seen {V} (d : pydict V) (seen : list str) : Prop := forall x, In x (keys d) -> In x seen.

Lemma add_fields_distinct t ae fs : forall b,
  NoDup (map fname (live fs)) ->
  (forall f, In f (live fs) -> ~ In (fname f) (b_seen b)) ->
  sub_seen (b_known b) (b_seen b) -> sub_seen (b_extra b) (b_seen b) -> sub_seen (b_lines b) (b_seen b) ->
  add_fields t ae b fs =
  Ok (mkB (b_known b ++ map (fun f => (fname f, fvalue f)) (filter (route t ae) (live fs)))
          (b_extra b ++ map (fun f => (fname f, fvalue f)) (filter (fun f => negb (route t ae f)) (live fs)))
          (b_lines b ++ map (fun f => (fname f, range_of f)) (live fs))
          (rev (map fname (live fs)) ++ b_seen b) (b_suffix b)).
Proof.
  induction fs as [|f fs IH]; intros b Hnd Hfresh Hk He Hl.
  - cbn [live filter map rev app add_fields]. rewrite !app_nil_r. destruct b; reflexivity.
  - cbn [add_fields]. unfold live in *. cbn [filter] in *. unfold add_field.
    destruct (field_text f) as [|c0 v0] eqn:Ev.
    + cbn [nonempty] in *. cbn [bind]. now apply IH.
    + cbn [nonempty] in *. fold (fname f).
      assert (Hnew : ~ In (fname f) (b_seen b)) by (apply Hfresh; now left).
      assert (Em : mem_str (fname f) (b_seen b) = false).
      { destruct (mem_str (fname f) (b_seen b)) eqn:E; [|reflexivity]. apply mem_str_In in E. contradiction. }
      rewrite Em.
      assert (Hk1 : ~ In (fname f) (keys (b_known b))) by (intros Hi; apply Hnew, Hk, Hi).
      assert (He1 : ~ In (fname f) (keys (b_extra b))) by (intros Hi; apply Hnew, He, Hi).
      assert (Hl1 : ~ In (fname f) (keys (b_lines b))) by (intros Hi; apply Hnew, Hl, Hi).
      rewrite (has_key_absent _ _ Hk1), (has_key_absent _ _ He1).
      rewrite !dict_put_fresh by (now apply dict_get_absent).
      cbn [map] in Hnd. inversion Hnd as [|? ? Hni Hnd']; subst.
      assert (Hfresh' : forall g, In g (filter (fun f => nonempty (field_text f)) fs) -> ~ In (fname g) (fname f :: b_seen b)).
      { intros g Hg [E|Hi]; [apply Hni; rewrite E; now apply in_map|]. apply (Hfresh g); [now right|exact Hi]. }
      fold (route t ae f). rewrite <- Ev. fold (fvalue f). fold (range_of f).
      destruct (route t ae f) eqn:Er; cbn [bind]; rewrite IH; cbn [b_known b_extra b_lines b_seen b_suffix]; try assumption.
      * cbn [filter map rev]. rewrite Er. cbn [negb map]. rewrite <- !app_assoc. reflexivity.
      * intros x Hx. rewrite keys_app in Hx. apply in_app_or in Hx as [Hx|[<-|[]]]; [right; now apply Hk|now left].
      * intros x Hx. right. now apply He.
      * intros x Hx. rewrite keys_app in Hx. apply in_app_or in Hx as [Hx|[<-|[]]]; [right; now apply Hl|now left].
      * cbn [filter map rev]. rewrite Er. cbn [negb map]. rewrite <- !app_assoc. reflexivity.
      * intros x Hx. right. now apply Hk.
      * intros x Hx. rewrite keys_app in Hx. apply in_app_or in Hx as [Hx|[<-|[]]]; [right; now apply He|now left].
      * intros x Hx. rewrite keys_app in Hx. apply in_app_or in Hx as [Hx|[<-|[]]]; [right; now apply Hl|now left].
Qed.

Definition all_extra (t : ptype) : bool := match t with PCatchAll => true | _ => false end.

(* a paragraph whose fields have pairwise different names: every field with a value is kept
   under its own name, known names typed, the others as extra data, each with its line range *)
Theorem from_fields_distinct t fs : NoDup (map fname (live fs)) ->
  from_fields t fs =
  Ok (build_para t
        (map (fun f => (fname f, fvalue f)) (filter (route t (all_extra t)) (live fs)))
        (map (fun f => (fname f, fvalue f)) (filter (fun f => negb (route t (all_extra t) f)) (live fs)))
        (map (fun f => (fname f, range_of f)) (live fs))).
Proof.
  intros Hnd. unfold from_fields. fold (all_extra t).
  rewrite add_fields_distinct; cbn [b_known b_extra b_lines b_seen]; try assumption; try (intros x []).
  - reflexivity.
  - intros f _ [].
Qed.

(* the typed value of a known field is the conversion of the text found in the document *)
Lemma dict_get_map_nodup (fs : list field) (v : field -> str) f :
  NoDup (map fname fs) -> In f fs -> dict_get (fname f) (map (fun f => (fname f, v f)) fs) = Some (v f).
Proof.
  induction fs as [|g fs IH]; intros Hnd Hin; [contradiction|]. cbn [map dict_get]. inversion Hnd as [|? ? Hni Hnd']; subst.
  destruct Hin as [->|Hin]; [now rewrite str_eqb_refl|].
  destruct (str_eqb (fname f) (fname g)) eqn:E; [|now apply IH].
  apply str_eqb_eq in E. exfalso. apply Hni. rewrite <- E. now apply in_map.
Qed.

Lemma NoDup_map_filter {A B} (g : A -> B) (q : A -> bool) l : NoDup (map g l) -> NoDup (map g (filter q l)).
Proof.
  induction l as [|x l IH]; intros H; [constructor|]. cbn [map filter] in *. inversion H as [|? ? Hni Hnd]; subst.
  destruct (q x); [|now apply IH]. cbn [map]. constructor; [|now apply IH].
  intros Hi. apply Hni. apply in_map_iff in Hi as (y & Ey & Hy). apply filter_In in Hy as [Hy _]. rewrite <- Ey. now apply in_map.
Qed.

Theorem typed_field_value t fs p f c : NoDup (map fname (live fs)) -> from_fields t fs = Ok p ->
  In f (live fs) -> In (fname f, c) (known_fields t) -> all_extra t = false ->
  In (fname f, convert c (fvalue f)) (p_fields p).
Proof.
  intros Hnd Hp Hf Hc Hae. rewrite from_fields_distinct in Hp by exact Hnd. apply Ok_inj in Hp. subst p.
  unfold build_para. cbn [p_fields]. apply in_map_iff. exists (fname f, c). split; [|exact Hc]. cbn [fst snd].
  assert (Hr : route t (all_extra t) f = true).
  { unfold route. rewrite Hae. cbn [negb andb]. unfold known_name. apply existsb_exists. exists (fname f, c). split; [exact Hc|apply str_eqb_refl]. }
  rewrite (dict_get_map_nodup (filter (route t (all_extra t)) (live fs)) fvalue f).
  - reflexivity.
  - now apply NoDup_map_filter.
  - apply filter_In. now split.
Qed.

(* a field with an unknown name is kept as extra data with the text found in the document *)
Theorem extra_field_value t fs p f : NoDup (map fname (live fs)) -> from_fields t fs = Ok p ->
  In f (live fs) -> known_name t (fname f) = false ->
  dict_get (fname f) (p_extra p) = Some (fvalue f).
Proof.
  intros Hnd Hp Hf Hk. rewrite from_fields_distinct in Hp by exact Hnd. apply Ok_inj in Hp. subst p.
  unfold build_para. cbn [p_extra]. apply dict_get_map_nodup; [now apply NoDup_map_filter|].
  apply filter_In. split; [exact Hf|]. unfold route. rewrite Hk. now rewrite andb_false_r.
Qed.

(* ---------- validity ---------- *)

Theorem no_files_invalid strict ps : of_type PFiles ps = [] -> doc_is_valid strict ps = false.
Proof.
  intros H. unfold doc_is_valid. destruct ps as [|p ps]; [reflexivity|]. rewrite H. cbn [nonempty andb].
  rewrite !andb_false_r. cbn [orb]. now destruct strict.
Qed.

Theorem header_and_files_valid ps h f fs :
  ps <> [] -> of_type PHeader ps = [h] -> of_type PFiles ps = f :: fs ->
  forallb (para_is_valid false) (f :: fs) = true -> doc_is_valid false ps = true.
Proof.
  intros Hne Hh Hf Hv. unfold doc_is_valid. destruct ps as [|p ps]; [contradiction|]. rewrite Hh, Hf, Hv. reflexivity.
Qed.

Theorem files_paragraph_valid p : p_type p = PFiles ->
  files_values p <> [] -> statements p <> [] -> lic_name p <> [] -> para_is_valid false p = true.
Proof.
  intros Ht H1 H2 H3. unfold para_is_valid. rewrite Ht.
  destruct (files_values p); [contradiction|]. destruct (statements p); [contradiction|]. destruct (lic_name p); [contradiction|]. reflexivity.
Qed.

Theorem files_paragraph_invalid p : p_type p = PFiles -> lic_text p = [] ->
  (files_values p = [] \/ statements p = [] \/ lic_name p = []) -> para_is_valid false p = false.
Proof.
  intros Ht H0 H. unfold para_is_valid. rewrite Ht, H0. cbn [nonempty]. rewrite orb_false_r.
  destruct H as [->|[->| ->]]; cbn [nonempty]; now rewrite ?andb_false_r.
Qed.

(* ---------- whole documents of the deb822 grammar ---------- *)

From DI Require Import Grammar822 Grammar822Facts.

Theorem dep5_document ps : wf_doc ps ->
  Forall (fun g => classify g <> PCatchAll) (expected_doc 1 ps) ->
  exists paras, from_text (doc_text ps) = Ok paras /\
    Forall2 (fun g p => from_fields (classify g) g = Ok p /\ p_type p = classify g) (expected_doc 1 ps) paras.
Proof.
  intros Hw Hc. destruct (from_text_total (doc_text ps)) as (paras & E). exists paras. split; [exact E|].
  unfold from_text in E. rewrite wf_doc_text_parses in E by exact Hw. cbn [bind] in E.
  now apply paragraph_per_group.
Qed.

Lemma expected_doc_length n ps : length (expected_doc n ps) = length ps.
Proof. revert n; induction ps as [|[p k] ps IH]; intros n; [reflexivity|]. cbn [expected_doc length]. now rewrite IH. Qed.

Lemma split_ws_join ws : Forall word ws -> split_ws (join [32] ws) = ws.
Proof.
  induction 1 as [|w ws [Hw Hn] Hws IH]; [reflexivity|]. destruct ws as [|w2 ws].
  - cbn [join]. now apply split_ws_word_end.
  - rewrite join_cons. unfold split_ws. rewrite split_ws_token by exact Hn. rewrite app_nil_r.
    rewrite (split_ws_space_flush [32] (rev w)); [|repeat constructor|discriminate|].
    + rewrite rev_involutive. f_equal. exact IH.
    + intros E. apply (f_equal (@rev char)) in E. rewrite rev_involutive in E. contradiction.
Qed.

Theorem license_name_text raw l0 ls : splitlines raw = l0 :: ls ->
  convert FLicense raw = VLicense (strip l0) (lstrip (from_formatted_lines ls)).
Proof. intros E. unfold convert, lic_from_value, desc_from_value, line_separated. now rewrite E. Qed.
