(* Proofs for C07 (and C10, C11): building a copyright object never raises. *)
From Coq Require Import String.
From Coq Require Import Arith NArith List Bool Lia FinFun.
From DI Require Import Result PyStr PyStrFacts Codec Deb822 Debcon Copyright Deb822Facts ParseFacts.
Import ListNotations.
Open Scope N_scope.

Lemma mem_str_In x l : mem_str x l = true <-> In x l.
Proof.
  induction l as [|y l IH]; cbn [mem_str In]; [split; [discriminate|contradiction]|].
  rewrite orb_true_iff, IH, str_eqb_eq. split; intros [H|H]; auto.
Qed.

(* ---------- a fresh name is found ---------- *)

Definition cand (name : str) (k : N) : str := name ++ [95] ++ N_to_dec k.

Lemma cand_inj name a b : cand name a = cand name b -> a = b.
Proof.
  unfold cand. intros H. apply app_inv_head in H. apply app_inv_head in H.
  destruct (N_to_dec_spec a) as (_ & _ & Ha & _). destruct (N_to_dec_spec b) as (_ & _ & Hb & _).
  rewrite <- Ha, <- Hb. now rewrite H.
Qed.

Lemma fresh_name_spec name seen fuel : forall sfx c s',
  fresh_name fuel name sfx seen = (c, s') ->
  (mem_str c seen = false /\ exists k, c = cand name k) \/
  (forall k, (k <= fuel)%nat -> mem_str (cand name (sfx + N.of_nat k)) seen = true).
Proof.
  induction fuel as [|f IH]; intros sfx c s' H; cbn [fresh_name] in H.
  - inversion H; subst. fold (cand name sfx). destruct (mem_str (cand name sfx) seen) eqn:E.
    + right. intros k Hk. assert (k = 0%nat) by lia. subst. cbn. now rewrite N.add_0_r.
    + left. split; [exact E|now exists sfx].
  - fold (cand name sfx) in H. destruct (mem_str (cand name sfx) seen) eqn:E.
    + destruct (IH _ _ _ H) as [Hl|Hr]; [now left|]. right. intros k Hk.
      destruct k as [|k]; [cbn; now rewrite N.add_0_r|].
      specialize (Hr k ltac:(lia)). rewrite Nat2N.inj_succ. replace (sfx + N.succ (N.of_nat k)) with (sfx + 1 + N.of_nat k) by lia. exact Hr.
    + inversion H; subst. left. split; [exact E|now exists sfx].
Qed.

Lemma fresh_name_fresh name seen sfx c s' :
  fresh_name (S (length seen)) name sfx seen = (c, s') -> mem_str c seen = false.
Proof.
  intros H. destruct (fresh_name_spec _ _ _ _ _ _ H) as [[Hl _]|Hr]; [exact Hl|]. exfalso.
  set (L := map (fun k => cand name (sfx + N.of_nat k)) (seq 0 (S (S (length seen))))).
  assert (Hnd : NoDup L).
  { subst L. apply FinFun.Injective_map_NoDup; [|apply seq_NoDup].
    intros a b E. apply cand_inj in E. lia. }
  assert (Hincl : incl L seen).
  { intros x Hx. subst L. apply in_map_iff in Hx as (k & <- & Hk). apply in_seq in Hk.
    apply mem_str_In. apply Hr. lia. }
  pose proof (NoDup_incl_length Hnd Hincl) as Hlen. subst L. rewrite map_length, seq_length in Hlen. lia.
Qed.

(* ---------- from_fields never hits its assertion ---------- *)

Definition keys {V} (d : pydict V) : list str := map fst d.

Lemma has_key_In {V} k (d : pydict V) : has_key k d = true -> In k (keys d).
Proof.
  unfold has_key. induction d as [|[k' v] d IH]; cbn; [discriminate|].
  destruct (str_eqb k k') eqn:E; [apply str_eqb_eq in E; subst; now left|]. intros H. right. now apply IH.
Qed.

Lemma keys_put {V} k (v : V) d x : In x (keys (dict_put k v d)) -> x = k \/ In x (keys d).
Proof.
  induction d as [|[k' v'] d IH]; cbn.
  - intros [<-|[]]. now left.
  - destruct (str_eqb k k') eqn:E; cbn.
    + intros [<-|H]; [right; now left|right; now right].
    + intros [<-|H]; [right; now left|]. destruct (IH H) as [->|H']; [now left|right; now right].
Qed.

Definition b_inv (b : builder) : Prop :=
  forall x, In x (keys (b_known b)) \/ In x (keys (b_extra b)) -> In x (b_seen b).

Lemma add_field_ok t ae b f : b_inv b -> exists b', add_field t ae b f = Ok b' /\ b_inv b'.
Proof.
  intros Hinv. unfold add_field. destruct (field_text f) as [|c0 v0] eqn:Ev; [exists b; split; [reflexivity|exact Hinv]|].
  set (value := c0 :: v0). set (name0 := replace_char 45 95 (f_name f)).
  destruct (mem_str name0 (b_seen b)) eqn:Em.
  - destruct (fresh_name (S (length (b_seen b))) name0 (b_suffix b) (b_seen b)) as [name sfx] eqn:Ef.
    pose proof (fresh_name_fresh _ _ _ _ _ Ef) as Hfresh.
    assert (Hk : has_key name (b_known b) = false /\ has_key name (b_extra b) = false).
    { split; (destruct (has_key name _) eqn:E; [|reflexivity]); apply has_key_In in E;
        (assert (Hin : In name (b_seen b)) by (apply Hinv; auto)); apply mem_str_In in Hin; congruence. }
    destruct Hk as [Hk1 Hk2]. rewrite Hk1, Hk2.
    destruct (negb ae && known_name t name); eexists; (split; [reflexivity|]);
      intros x [Hx|Hx]; cbn [b_known b_extra b_seen] in *.
    + apply keys_put in Hx as [->|Hx]; [now left|right; apply Hinv; now left].
    + right. apply Hinv. now right.
    + right. apply Hinv. now left.
    + apply keys_put in Hx as [->|Hx]; [now left|right; apply Hinv; now right].
  - assert (Hk : has_key name0 (b_known b) = false /\ has_key name0 (b_extra b) = false).
    { split; (destruct (has_key name0 _) eqn:E; [|reflexivity]); apply has_key_In in E;
        (assert (Hin : In name0 (b_seen b)) by (apply Hinv; auto)); apply mem_str_In in Hin; congruence. }
    destruct Hk as [Hk1 Hk2]. rewrite Hk1, Hk2.
    destruct (negb ae && known_name t name0); eexists; (split; [reflexivity|]);
      intros x [Hx|Hx]; cbn [b_known b_extra b_seen] in *.
    + apply keys_put in Hx as [->|Hx]; [now left|right; apply Hinv; now left].
    + right. apply Hinv. now right.
    + right. apply Hinv. now left.
    + apply keys_put in Hx as [->|Hx]; [now left|right; apply Hinv; now right].
Qed.

Lemma add_fields_ok t ae fs : forall b, b_inv b -> exists b', add_fields t ae b fs = Ok b'.
Proof.
  induction fs as [|f fs IH]; intros b Hb; [eexists; reflexivity|].
  cbn [add_fields]. destruct (add_field_ok t ae b f Hb) as (b' & -> & Hb'). cbn [bind]. now apply IH.
Qed.

Theorem from_fields_total t fs : exists p, from_fields t fs = Ok p.
Proof.
  unfold from_fields. destruct (add_fields_ok t (match t with PCatchAll => true | _ => false end) fs (mkB [] [] [] [] 1)) as (b & ->).
  - intros x [[]|[]].
  - eexists. reflexivity.
Qed.

Lemma mapM_total {A B} (f : A -> result B) l : (forall x, exists y, f x = Ok y) -> exists ys, mapM f l = Ok ys.
Proof.
  intros Hf. induction l as [|x l [ys IH]]; [eexists; reflexivity|]. cbn [mapM].
  destruct (Hf x) as (y & ->). cbn [bind]. rewrite IH. eexists. reflexivity.
Qed.

(* building a copyright object from any text succeeds; its dictionary form, rendering and
   validity are total functions of it in the model *)
Theorem from_text_total t : exists ps, from_text t = Ok ps.
Proof.
  unfold from_text. destruct (groups_total t) as (gs & ->). cbn [bind]. unfold from_groups.
  destruct (mapM_total (fun g => from_fields (classify g) g) gs) as (ps & ->).
  - intros g. apply from_fields_total.
  - eexists. reflexivity.
Qed.
