(* Proofs for C15: matching is the three-valued algebra over dpkg order. *)
From Coq Require Import String.
From Coq Require Import NArith ZArith List Bool Lia.
From DI Require Import Result PyStr PyStrFacts Version Deps Matching.
Import ListNotations.

Lemma matches_simple n name c :
  rel_matches (Rel n []) name c = Ok (if str_eqb n name then Some true else None).
Proof. cbn [rel_matches is_nil negb]. destruct (str_eqb n name); reflexivity. Qed.

Lemma matches_simple_arch n a archs name c :
  rel_matches (Rel n (a :: archs)) name c =
  if str_eqb n name then Raise NotImplementedError else Ok None.
Proof. cbn [rel_matches is_nil negb]. destruct (str_eqb n name); reflexivity. Qed.

Lemma matches_versioned_other n o v archs name c :
  str_eqb n name = false -> rel_matches (VRel n o v archs) name c = Ok None.
Proof. intros H. cbn [rel_matches]. now rewrite H. Qed.

Lemma matches_versioned_no_candidate n o v archs name c :
  str_eqb n name = true -> cand_truthy c = false ->
  rel_matches (VRel n o v archs) name c = Ok (Some false).
Proof. intros H Hc. cbn [rel_matches]. now rewrite H, Hc. Qed.

(* with a candidate version: the operator table applied to compare(candidate, required) *)
Lemma matches_versioned n o v name c vc vr r :
  str_eqb n name = true -> cand_truthy c = true ->
  coerce_cand c = Ok vc -> from_string v = Ok vr ->
  compare_version_objects vc vr = Ok r ->
  rel_matches (VRel n o v []) name c =
  match parse_op o with
  | Some op => Ok (Some (apply_op op r))
  | None => Raise ValueError
  end.
Proof.
  intros H Hc Hvc Hvr Hr. cbn [rel_matches is_nil negb]. rewrite H, Hc.
  unfold eval_constraint_cand. rewrite Hvc, Hvr. cbn [bind]. unfold eval_constraint_obj. rewrite Hr. cbn [bind].
  destruct (parse_op o); reflexivity.
Qed.

(* the operator table on the three possible results *)
Lemma operator_table :
  map (fun o => option_map (fun op => map (apply_op op) [-1; 0; 1]%Z) (parse_op (lit o)))
      ["<<"; "<="; "<"; "="; ">="; ">"; ">>"]%string =
  [Some [true; false; false]; Some [true; true; false]; Some [true; true; false];
   Some [false; true; false]; Some [false; true; true]; Some [false; true; true];
   Some [false; false; true]].
Proof. vm_compute. reflexivity. Qed.

(* ---------- alternatives ---------- *)

Definition or_go (name : str) (c : cand) :=
  fix go (rs : list rel) (acc : option bool) : result (option bool) :=
    match rs with
    | [] => Ok acc
    | r :: rs' =>
        do m <- rel_matches r name c;
        match m with
        | Some true => Ok (Some true)
        | Some false => go rs' (Some false)
        | None => go rs' acc
        end
    end.

Lemma matches_or_unfold rs name c : rel_matches (OrRel rs) name c = or_go name c rs None.
Proof. reflexivity. Qed.

Lemma or_go_spec name c rs os : Forall2 (fun r o => rel_matches r name c = Ok o) rs os ->
  forall acc, (acc = None \/ acc = Some false) ->
  or_go name c rs acc =
  Ok (if existsb is_T os then Some true
      else if existsb is_F os then Some false else acc).
Proof.
  induction 1 as [|r o rs os Hr _ IH]; intros acc Hacc; [reflexivity|].
  cbn [or_go]. rewrite Hr. cbn [bind existsb].
  destruct o as [[|]|]; cbn [is_T is_F orb].
  - reflexivity.
  - rewrite IH by (right; reflexivity). destruct (existsb is_T os); [reflexivity|].
    destruct (existsb is_F os); reflexivity.
  - now rewrite IH.
Qed.

Theorem matches_or name c rs os :
  Forall2 (fun r o => rel_matches r name c = Ok o) rs os ->
  rel_matches (OrRel rs) name c = Ok (or_tv os).
Proof.
  intros H. rewrite matches_or_unfold, (or_go_spec name c rs os H None) by (left; reflexivity).
  reflexivity.
Qed.

(* ---------- conjunction ---------- *)

Definition and_all (name : str) (c : cand) :=
  fix all (rs : list rel) : result (list (option bool)) :=
    match rs with
    | [] => Ok []
    | r :: rs' => do m <- rel_matches r name c; do ms <- all rs'; Ok (m :: ms)
    end.

Lemma and_all_spec name c rs os : Forall2 (fun r o => rel_matches r name c = Ok o) rs os ->
  and_all name c rs = Ok os.
Proof.
  induction 1 as [|r o rs os Hr _ IH]; [reflexivity|]. cbn [and_all]. now rewrite Hr, IH.
Qed.

Definition known_of (ms : list (option bool)) : list bool :=
  flat_map (fun m => match m with Some b => [b] | None => [] end) ms.

Lemma known_nil os : known_of os = [] <-> forallb is_N os = true.
Proof.
  induction os as [|o os IH]; [split; reflexivity|]. destruct o as [b|]; cbn.
  - split; discriminate.
  - exact IH.
Qed.

Lemma known_all os : forallb (fun b => b) (known_of os) = negb (existsb is_F os).
Proof.
  induction os as [|o os IH]; [reflexivity|]. destruct o as [[|]|]; cbn; try exact IH. reflexivity.
Qed.

Theorem matches_and name c rs os :
  Forall2 (fun r o => rel_matches r name c = Ok o) rs os ->
  rel_matches (AndRel rs) name c = Ok (and_tv os).
Proof.
  intros H. cbn [rel_matches]. fold (and_all name c). rewrite (and_all_spec name c rs os H). cbn [bind].
  fold (known_of os). unfold and_tv.
  destruct (known_of os) as [|b k] eqn:E.
  - apply known_nil in E. now rewrite E.
  - assert (Hn : forallb is_N os = false).
    { destruct (forallb is_N os) eqn:F; [|reflexivity]. apply known_nil in F. congruence. }
    rewrite Hn, <- E. now rewrite known_all.
Qed.

(* ---------- archive against relationship sets ---------- *)

Lemma match_relationships_spec name c sets os :
  Forall2 (fun r o => rel_matches r name c = Ok o) sets os ->
  forall acc, (acc = None \/ acc = Some true) ->
  match_relationships_aux name c sets acc =
  Ok (if existsb is_F os then Some false else if existsb is_T os then Some true else acc).
Proof.
  induction 1 as [|r o rs os Hr _ IH]; intros acc Hacc; [reflexivity|].
  cbn [match_relationships_aux]. rewrite Hr. cbn [bind existsb].
  destruct o as [[|]|]; cbn [is_T is_F orb].
  - destruct Hacc as [->| ->]; rewrite IH by (right; reflexivity);
      destruct (existsb is_F os); try reflexivity; destruct (existsb is_T os); reflexivity.
  - reflexivity.
  - now rewrite IH.
Qed.

Theorem match_relationships_tv name c sets os :
  Forall2 (fun r o => rel_matches r name c = Ok o) sets os ->
  match_relationships name c sets = Ok (sets_tv os).
Proof.
  intros H. unfold match_relationships. rewrite (match_relationships_spec name c sets os H None) by (left; reflexivity).
  reflexivity.
Qed.
