(* Proofs for C13: rendering the object parsed back from a rendering gives the same text. *)
From Coq Require Import String.
From Coq Require Import Arith NArith List Bool Lia.
From DI Require Import Result PyStr PyStrFacts Codec CodecFacts Deb822 Deb822Facts Debcon Copyright CopyrightFacts
  Grammar822 Grammar822Facts Grammar822Header Dep5Facts WordFacts ConserveFacts RenderFacts FromDictFacts RoundTripFacts.
Import ListNotations.
Open Scope N_scope.

Lemma base_dumps_same t K E L L' : para_ok t K E ->
  base_dumps (build_para t (filter is_live (KD t K)) E L') = base_dumps (build_para t K E L).
Proof.
  intros H. destruct (reparse_para_shape t K E 1 H) as (_ & _ & EK).
  rewrite !base_dumps_items by apply (po_extra _ _ _ H). unfold items. now rewrite EK.
Qed.

(* the typed value of a known field of a built paragraph *)
Lemma get_field_build t K E L k c : In (k, c) (known_fields t) ->
  get_field (build_para t K E L) k = convert c (lookup k K).
Proof.
  intros Hin. unfold get_field, build_para. cbn [p_fields]. pose proof (known_names_nodup t) as Hnd.
  induction (known_fields t) as [|[k0 c0] l IH]; [contradiction|]. cbn [map fst snd find] in *.
  inversion Hnd as [|? ? Hni Hnd']; subst. destruct Hin as [Heq|Hin].
  - inversion Heq; subst. rewrite str_eqb_refl. reflexivity.
  - destruct (str_eqb k0 k) eqn:E0; [apply str_eqb_eq in E0; subst; exfalso; apply Hni; now apply (in_map fst) in Hin|]. now apply IH.
Qed.

Lemma nonempty_false {A} (l : list A) : nonempty l = false -> l = [].
Proof. destruct l; [reflexivity|discriminate]. Qed.

(* an empty Files or License paragraph has no value to render *)
Lemma empty_no_live t K E L : para_is_empty (build_para t K E L) = true -> t = PFiles \/ t = PLicense -> live_items t K E = [].
Proof.
  intros He [-> | ->].
  - unfold para_is_empty in He. cbn [p_type build_para] in He. apply negb_true_iff in He.
    unfold files_values, lic_name, lic_text, comment_text, statements in He.
    rewrite (get_field_build PFiles K E L (lit "files") FWS) in He by (cbn; auto).
    rewrite (get_field_build PFiles K E L (lit "license") FLicense) in He by (cbn; auto).
    rewrite (get_field_build PFiles K E L (lit "comment") FFormatted) in He by (cbn; auto).
    rewrite (get_field_build PFiles K E L (lit "copyright") FCopyright) in He by (cbn; auto).
    cbn [p_extra build_para convert] in He.
    unfold live_items, items, KD. cbn [known_fields map fst snd]. unfold RP. cbn [convert].
    destruct (lic_from_value (lookup (lit "license") K)) as [n tx].
    repeat (apply orb_false_iff in He as [He ?]).
    repeat match goal with H : nonempty _ = false |- _ => apply nonempty_false in H end.
    subst. match goal with H : split_ws _ = [] |- _ => rewrite H end.
    match goal with H : from_formatted_text _ = [] |- _ => rewrite H end.
    match goal with H : map statement_from_value _ = [] |- _ => rewrite H end.
    vm_compute. reflexivity.
  - unfold para_is_empty in He. cbn [p_type build_para] in He. apply negb_true_iff in He.
    unfold lic_name, lic_text, comment_text in He.
    rewrite (get_field_build PLicense K E L (lit "license") FLicense) in He by (cbn; auto).
    rewrite (get_field_build PLicense K E L (lit "comment") FFormatted) in He by (cbn; auto).
    cbn [p_extra build_para convert] in He.
    unfold live_items, items, KD. cbn [known_fields map fst snd]. unfold RP. cbn [convert].
    destruct (lic_from_value (lookup (lit "license") K)) as [n tx].
    repeat (apply orb_false_iff in He as [He ?]).
    repeat match goal with H : nonempty _ = false |- _ => apply nonempty_false in H end.
    subst. match goal with H : from_formatted_text _ = [] |- _ => rewrite H end.
    vm_compute. reflexivity.
Qed.

Lemma para_dumps_base t K E L : live_items t K E <> [] ->
  para_dumps (build_para t K E L) = base_dumps (build_para t K E L).
Proof.
  intros Hl. unfold para_dumps. cbn [p_type build_para]. destruct t; try reflexivity.
  - destruct (para_is_empty _) eqn:He; [|reflexivity]. exfalso. apply Hl. apply (empty_no_live PFiles K E L He). now left.
  - destruct (para_is_empty _) eqn:He; [|reflexivity]. exfalso. apply Hl. apply (empty_no_live PLicense K E L He). now right.
Qed.

(* ---------- whole documents ---------- *)

(* what the document theorem needs of a paragraph (the rendering being the general one follows from
   the paragraph having a value to render) *)
Definition spec_good (s : spec) : Prop :=
  para_ok (s_type s) (s_known s) (s_extra s) /\ s_type s <> PCatchAll /\
  (forall n, classify (expected_para n (srendered s)) = s_type s).

Lemma spec_good_ok s : spec_good s -> spec_ok s.
Proof.
  intros (Hp & Hnc & Hcl). split; [exact Hp|]. split; [exact Hnc|]. split; [|exact Hcl].
  unfold build. apply para_dumps_base. apply (po_some _ _ _ Hp).
Qed.

Lemma filter_live_KD_live t K E : para_ok t K E -> live_items t (filter is_live (KD t K)) E = live_items t K E.
Proof.
  intros H. destruct (reparse_para_shape t K E 1 H) as (_ & _ & EK). unfold live_items, items. now rewrite EK.
Qed.

Theorem doc_roundtrip_fixpoint specs : specs <> [] -> Forall spec_good specs ->
  exists ps', from_text (doc_dumps (map build specs)) = Ok ps' /\
    Forall2 (fun p p' => p_type p' = p_type p /\ para_to_dict p' = para_to_dict p) (map build specs) ps' /\
    doc_dumps ps' = doc_dumps (map build specs).
Proof.
  intros Hne Hgood. assert (Hok : Forall spec_ok specs) by (eapply Forall_impl; [|exact Hgood]; apply spec_good_ok).
  set (Gs := map srendered specs).
  assert (HG : Forall (fun g => g <> [] /\ Forall wf_gfield g) Gs).
  { subst Gs. rewrite Forall_map. eapply Forall_impl; [|exact Hok]. intros s (Hp & _). destruct (base_dumps_render _ _ _ (s_lines s) Hp) as (_ & H1 & H2). now split. }
  assert (Etext : doc_dumps (map build specs) = doc_text (seps1 Gs)).
  { unfold doc_dumps. rewrite doc_text_blocks; [|subst Gs; destruct specs; [contradiction|discriminate]|eapply Forall_impl; [|exact HG]; now intros g [H _]].
    f_equal. f_equal. subst Gs. rewrite !map_map. apply map_ext_Forall. eapply Forall_impl; [|exact Hok].
    intros s (Hp & _ & Hd & _). rewrite Hd. apply (base_dumps_render _ _ _ (s_lines s) Hp). }
  unfold from_text. rewrite Etext, wf_doc_text_parses by now apply seps1_wf. cbn [bind].
  assert (F : exists ps0, Forall2 (fun g p => from_fields (classify g) g = Ok p) (expected_doc 1 (seps1 Gs)) ps0 /\
                          Forall2 (fun p p' => p_type p' = p_type p /\ para_to_dict p' = para_to_dict p /\ para_dumps p' = para_dumps p) (map build specs) ps0).
  { pose proof (expected_doc_seps1 Gs 1) as HE. subst Gs. clear Etext HG Hne Hok. revert HE. generalize (expected_doc 1 (seps1 (map srendered specs))). intros gs HE.
    revert gs HE. induction Hgood as [|s specs (Hp & Hnc & Hcl) _ IH]; intros gs HE.
    - inversion HE; subst. exists []. split; constructor.
    - cbn [map] in HE. inversion HE as [|? g ? gs' (m & Eg) HE']; subst. destruct (IH gs' HE') as (ps0 & F1 & F2).
      destruct (reparse_para_shape _ _ _ m Hp) as (L' & Ep & EK). eexists (_ :: ps0). split.
      + constructor; [|exact F1]. fold (srendered s). rewrite Hcl. exact Ep.
      + cbn [map]. constructor; [|exact F2]. split; [reflexivity|]. split.
        * unfold build. rewrite !to_dict_shape by apply Hp. now rewrite EK.
        * unfold build. rewrite !para_dumps_base.
          -- apply base_dumps_same. exact Hp.
          -- apply (po_some _ _ _ Hp).
          -- rewrite filter_live_KD_live by exact Hp. apply (po_some _ _ _ Hp). }
  destruct F as (ps0 & F1 & F2). exists ps0.
  assert (F2' : Forall2 (fun p p' => p_type p' = p_type p /\ para_to_dict p' = para_to_dict p) (map build specs) ps0).
  { clear -F2. induction F2 as [|p p' l l' (A & B & _) _ IH]; constructor; [now split|exact IH]. }
  split; [|split; [exact F2'|]].
  - unfold from_groups. rewrite (mapM_Forall2 _ _ _ F1). cbn [bind].
    assert (Hnc : Forall (fun p => is_catchall p = false) ps0).
    { clear -F2' Hgood. revert ps0 F2'. induction Hgood as [|s specs (_ & Hnc & _) _ IH]; intros ps0 F2; inversion F2 as [|? p' ? ps0' [Ht _] F2']; subst; constructor.
      - unfold is_catchall. rewrite Ht. unfold build, build_para. cbn [p_type]. destruct (s_type s); try reflexivity. contradiction.
      - now apply IH. }
    rewrite merge_unknown_id by exact Hnc. unfold fold_license. rewrite fold_list_id by exact Hnc. now destruct (Nat.leb _ 2).
  - rewrite <- Etext. unfold doc_dumps. f_equal. f_equal. clear -F2. induction F2 as [|p p' l l' (_ & _ & C) _ IH]; [reflexivity|]. cbn [map]. now rewrite C, IH.
Qed.
