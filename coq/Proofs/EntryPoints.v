(* C03: the entry points that take version strings - comparing two of them, evaluating a
   constraint between them - accept exactly the strings from_string accepts, and reject the
   others with ValueError. *)
From Coq Require Import String.
From Coq Require Import NArith ZArith List Bool.
From DI Require Import Result PyStr PyStrFacts Version Dpkg Policy OrderFacts VersionFacts ParseFacts VersionOrder.
Import ListNotations.
Open Scope N_scope.

Theorem compare_versions_accepts a b :
  (exists r, compare_versions a b = Ok r) <-> (exists va vb, from_string a = Ok va /\ from_string b = Ok vb).
Proof.
  split.
  - intros [r H]. unfold compare_versions in H.
    destruct (from_string a) as [va|ea]; [|discriminate].
    destruct (from_string b) as [vb|eb]; [|discriminate].
    exists va, vb. split; reflexivity.
  - intros (va & vb & Ha & Hb). eexists. exact (compare_versions_vcmp a b va vb Ha Hb).
Qed.

Theorem compare_versions_rejects a b e : compare_versions a b = Raise e -> e = ValueError.
Proof.
  unfold compare_versions. intro H.
  destruct (from_string a) as [va|ea] eqn:Ha.
  - destruct (from_string b) as [vb|eb] eqn:Hb.
    + cbn [bind] in H. rewrite (cvo_vcmp va vb (from_string_wfv a va Ha) (from_string_wfv b vb Hb)) in H. discriminate.
    + cbn [bind] in H. injection H as <-. exact (from_string_raise b eb Hb).
  - cbn [bind] in H. injection H as <-. exact (from_string_raise a ea Ha).
Qed.

(* with one of the seven operators *)
Theorem eval_constraint_accepts a o b op : parse_op o = Some op ->
  ((exists r, eval_constraint a o b = Ok r) <-> (exists va vb, from_string a = Ok va /\ from_string b = Ok vb)).
Proof.
  intro Ho. split.
  - intros [r H]. unfold eval_constraint in H.
    destruct (from_string a) as [va|ea]; [|discriminate].
    destruct (from_string b) as [vb|eb]; [|discriminate].
    exists va, vb. split; reflexivity.
  - intros (va & vb & Ha & Hb). unfold eval_constraint, eval_constraint_obj. rewrite Ha, Hb. cbn [bind].
    rewrite (cvo_vcmp va vb (from_string_wfv a va Ha) (from_string_wfv b vb Hb)). cbn [bind]. rewrite Ho.
    eexists. reflexivity.
Qed.

Theorem eval_constraint_rejects a o b e : eval_constraint a o b = Raise e -> e = ValueError.
Proof.
  unfold eval_constraint, eval_constraint_obj. intro H.
  destruct (from_string a) as [va|ea] eqn:Ha.
  - destruct (from_string b) as [vb|eb] eqn:Hb.
    + cbn [bind] in H. rewrite (cvo_vcmp va vb (from_string_wfv a va Ha) (from_string_wfv b vb Hb)) in H.
      cbn [bind] in H. destruct (parse_op o); [discriminate|]. injection H as <-. reflexivity.
    + cbn [bind] in H. injection H as <-. exact (from_string_raise b eb Hb).
  - cbn [bind] in H. injection H as <-. exact (from_string_raise a ea Ha).
Qed.
