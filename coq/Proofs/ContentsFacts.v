(* Proofs for C18. *)
From Coq Require Import String.
From Coq Require Import NArith List Bool Lia.
From DI Require Import Result PyStr PyStrFacts Contents ContentsSpec.
Import ListNotations.
Open Scope N_scope.

(* ---------- one row ---------- *)

Lemma forallb_repeat_space k : forallb is_space (repeat 32 k) = true.
Proof. induction k; [reflexivity|]. simpl. exact IHk. Qed.

Lemma no_space_not_In32 s : no_space s -> ~ In 32 s.
Proof. intros H Hi. unfold no_space in H. rewrite Forall_forall in H. specialize (H _ Hi). discriminate. Qed.

Lemma no_space_app a b : no_space a -> no_space b -> no_space (a ++ b).
Proof. intros. apply Forall_app. now split. Qed.

Lemma no_space_join_comma l : Forall no_space l -> no_space (join [44] l).
Proof.
  induction 1 as [|x l Hx Hl IH]; [constructor|]. destruct l as [|y l]; [exact Hx|].
  rewrite join_cons. apply no_space_app; [exact Hx|]. apply no_space_app; [repeat constructor|exact IH].
Qed.

Lemma pkgs_text_facts r : wf_row r -> no_space (pkgs_text r) /\ pkgs_text r <> [].
Proof.
  intros (_ & _ & Hne & Hf & _). unfold pkgs_text. split.
  - apply no_space_join_comma. rewrite Forall_map. eapply Forall_impl; [|exact Hf].
    intros [q n] [(Hq & _) (_ & Hn & _)]. now apply no_space_app.
  - destruct (r_pkgs r) as [|[q n] l]; [contradiction|]. inversion Hf as [|? ? [_ (Hn & _)] _]; subst.
    cbn [map fst snd]. destruct l; cbn [join]; intros E; apply app_eq_nil in E as [_ E];
      [contradiction|]. apply app_eq_nil in E as [E _]. discriminate.
Qed.

Lemma strip_no_change s : s <> [] -> (match s with c :: _ => is_space c = false | [] => True end) ->
  (match rev s with c :: _ => is_space c = false | [] => True end) -> strip s = s.
Proof.
  intros Hne Hh Hl. apply strip_by_fixed; [exact Hh|].
  destruct (exists_last Hne) as (s' & x & E). rewrite E in *. rewrite rev_app_distr in Hl. simpl in Hl.
  now apply rstrip_by_snoc_keep.
Qed.

Lemma strip_head_nonspace s : strip s = s -> s <> [] ->
  (match s with c :: _ => is_space c = false | [] => True end) /\
  (match rev s with c :: _ => is_space c = false | [] => True end).
Proof.
  intros E Hne. split.
  - destruct s as [|c s]; [exact I|]. destruct (is_space c) eqn:Ec; [|reflexivity].
    exfalso. unfold strip, strip_by, lstrip_by in E. cbn [drop_while] in E. rewrite Ec in E.
    assert (L : (length (rstrip_by is_space (drop_while is_space s)) <= length s)%nat).
    { destruct (rstrip_by_prefix is_space (drop_while is_space s)) as (r & E1 & _).
      destruct (drop_while_suffix is_space s) as (a & E2 & _).
      rewrite E2 at 2. rewrite E1 at 2. rewrite !app_length. lia. }
    rewrite E in L. simpl in L. lia.
  - unfold strip, strip_by in E. destruct (rstrip_by_last is_space (lstrip_by is_space s)) as [H|(a & c & H & Hc)].
    + rewrite H in E. subst. contradiction.
    + rewrite H in E. rewrite <- E. rewrite rev_app_distr. simpl. exact Hc.
Qed.

(* the line of a well-formed row splits into its path and its package list *)
Lemma row_split pad r : wf_row r ->
  let '(l, _, rr) := rpartition_char 32 (strip (render_row pad r)) in
  strip l = r_path r /\ strip rr = pkgs_text r.
Proof.
  intros Hw. pose proof (pkgs_text_facts r Hw) as [Hns Hne].
  destruct Hw as (Hp & Hps & _).
  destruct (strip_head_nonspace _ Hps Hp) as [Hh Hl].
  unfold render_row.
  assert (Hstrip : strip (r_path r ++ repeat 32 (S pad) ++ pkgs_text r) = r_path r ++ repeat 32 (S pad) ++ pkgs_text r).
  { apply strip_no_change.
    - destruct (r_path r); [contradiction|discriminate].
    - destruct (r_path r); [contradiction|exact Hh].
    - rewrite !rev_app_distr. destruct (exists_last Hne) as (s' & x & E). rewrite E, rev_app_distr. simpl.
      rewrite E in Hns. apply Forall_app in Hns as [_ Hx]. now inversion Hx. }
  rewrite Hstrip.
  replace (r_path r ++ repeat 32 (S pad) ++ pkgs_text r)
    with ((r_path r ++ repeat 32 pad) ++ 32 :: pkgs_text r).
  2:{ rewrite <- app_assoc. f_equal. replace (S pad) with (pad + 1)%nat by lia.
      rewrite repeat_app. rewrite <- app_assoc. reflexivity. }
  rewrite rpartition_char_app by now apply no_space_not_In32.
  split.
  - unfold strip, strip_by, lstrip_by. destruct (r_path r) as [|c p] eqn:Ep; [contradiction|].
    cbn [app drop_while]. rewrite Hh. change (c :: p ++ repeat 32 pad) with ((c :: p) ++ repeat 32 pad).
    rewrite rstrip_by_app_all by apply forallb_repeat_space.
    unfold strip, strip_by, lstrip_by in Hps. cbn [drop_while] in Hps. rewrite Hh in Hps. exact Hps.
  - apply strip_no_change; [exact Hne| |].
    + destruct (pkgs_text r) as [|c s]; [exact I|]. now inversion Hns.
    + destruct (exists_last Hne) as (s' & x & E). rewrite E, rev_app_distr. simpl.
      rewrite E in Hns. apply Forall_app in Hns as [_ Hx]. now inversion Hx.
Qed.

Lemma bare_name_qual q n : wf_qual q -> wf_name n -> bare_name (q ++ n) = n.
Proof.
  intros (_ & _ & Hq) (_ & _ & _ & Hn). unfold bare_name.
  destruct Hq as [->|(q' & ->)].
  - cbn [app]. now rewrite rpartition_char_absent.
  - rewrite <- app_assoc. cbn [app]. now rewrite rpartition_char_app.
Qed.

Lemma split_pkgs r : wf_row r ->
  split_char 44 (pkgs_text r) = map (fun qn => fst qn ++ snd qn) (r_pkgs r).
Proof.
  intros (_ & _ & Hne & Hf & _). unfold pkgs_text. apply split_char_join.
  - intros E. apply map_eq_nil in E. contradiction.
  - rewrite Forall_map. eapply Forall_impl; [|exact Hf]. intros [q n] [(_ & Hq & _) (_ & _ & Hn & _)].
    cbn [fst snd]. intros Hi. apply in_app_or in Hi as [Hi|Hi]; contradiction.
Qed.

Definition add_event (st : mdict * mdict) (e : str * str) : mdict * mdict :=
  (dict_append (fst e) (snd e) (fst st), dict_append (snd e) (fst e) (snd st)).

Lemma add_row_events r st : wf_row r ->
  add_row (r_path r) (pkgs_text r) st =
  fold_left add_event (map (fun qn => (r_path r, snd qn)) (r_pkgs r)) st.
Proof.
  intros Hw. unfold add_row. rewrite (split_pkgs r Hw).
  destruct Hw as (_ & _ & _ & Hf & _). revert st.
  induction Hf as [|[q n] l [Hq Hn] _ IH]; intros st; [reflexivity|].
  cbn [map fold_left fst snd]. rewrite (bare_name_qual q n Hq Hn). apply IH.
Qed.

(* ---------- the whole table ---------- *)

Lemma loop_rows has_header pads rows : Forall wf_row rows -> length pads = length rows -> forall st,
  contents_loop has_header true st (map (fun pr => render_row (fst pr) (snd pr)) (combine pads rows)) =
  Ok (true, fold_left add_event (events rows) st).
Proof.
  intros Hf. revert pads. induction Hf as [|r rows Hr _ IH]; intros pads Hl st.
  - destruct pads; [reflexivity|discriminate].
  - destruct pads as [|pad pads]; [discriminate|]. injection Hl as Hl.
    cbn [combine map fst snd contents_loop].
    pose proof (row_split pad r Hr) as Hs.
    destruct (rpartition_char 32 (strip (render_row pad r))) as [[l f] rr]. destruct Hs as [-> ->].
    destruct Hr as (H1 & H2 & H3 & H4 & Hhdr). rewrite Hhdr. cbn [negb].
    rewrite add_row_events by (repeat split; assumption).
    rewrite IH by exact Hl. unfold events. cbn [flat_map]. now rewrite fold_left_app.
Qed.

Theorem parse_table_no_header pads rows : Forall wf_row rows -> length pads = length rows ->
  parse_contents_lines false (map (fun pr => render_row (fst pr) (snd pr)) (combine pads rows)) =
  Ok (fold_left add_event (events rows) ([], [])).
Proof.
  intros Hf Hl. unfold parse_contents_lines. cbn [negb]. rewrite (loop_rows false pads rows Hf Hl). reflexivity.
Qed.

(* ---------- what the mappings hold ---------- *)

Lemma lookup_append k k' v d :
  lookup k (dict_append k' v d) = if str_eqb k k' then lookup k d ++ [v] else lookup k d.
Proof.
  unfold lookup. induction d as [|[k2 vs] d IH]; cbn [dict_append find fst].
  - destruct (str_eqb k k') eqn:E; cbn [find fst]; rewrite ?E; reflexivity.
  - destruct (str_eqb k' k2) eqn:E2; cbn [find fst].
    + apply str_eqb_eq in E2. subst k2. destruct (str_eqb k k'); reflexivity.
    + destruct (str_eqb k k2) eqn:E3.
      * apply str_eqb_eq in E3. subst k2. rewrite (proj2 (str_eqb_neq k k')); [reflexivity|].
        apply str_eqb_neq in E2. congruence.
      * exact IH.
Qed.

Lemma fold_events_lookup es : forall st p n,
  lookup p (fst (fold_left add_event es st)) =
    lookup p (fst st) ++ map snd (filter (fun e => str_eqb p (fst e)) es) /\
  lookup n (snd (fold_left add_event es st)) =
    lookup n (snd st) ++ map fst (filter (fun e => str_eqb n (snd e)) es).
Proof.
  induction es as [|[p0 n0] es IH]; intros st p n; cbn [fold_left filter map]; [now rewrite !app_nil_r|].
  destruct (IH (add_event st (p0, n0)) p n) as [-> ->]. unfold add_event. cbn [fst snd].
  rewrite !lookup_append. split.
  - destruct (str_eqb p p0); cbn [map snd]; [now rewrite <- app_assoc|reflexivity].
  - destruct (str_eqb n n0); cbn [map fst]; [now rewrite <- app_assoc|reflexivity].
Qed.

Theorem by_path_complete rows p :
  lookup p (fst (fold_left add_event (events rows) ([], []))) = by_path_spec rows p.
Proof. destruct (fold_events_lookup (events rows) ([], []) p p) as [H _]. exact H. Qed.

Theorem by_package_complete rows n :
  lookup n (snd (fold_left add_event (events rows) ([], []))) = by_package_spec rows n.
Proof. destruct (fold_events_lookup (events rows) ([], []) n n) as [_ H]. exact H. Qed.

Lemma count_app x a b : count x (a ++ b) = (count x a + count x b)%nat.
Proof. induction a as [|y a IH]; [reflexivity|]. cbn [app count]. rewrite IH. lia. Qed.

(* mutually inverse, with multiplicity *)
Theorem mappings_inverse rows p n :
  count n (by_path_spec rows p) = count p (by_package_spec rows n).
Proof.
  unfold by_path_spec, by_package_spec. induction (events rows) as [|[p0 n0] es IH]; [reflexivity|].
  cbn [filter fst snd]. destruct (str_eqb p p0) eqn:Ep, (str_eqb n n0) eqn:En; cbn [map count fst snd];
    rewrite ?Ep, ?En, IH; reflexivity.
Qed.

(* ---------- header handling ---------- *)

Definition is_header_line (line : str) : bool :=
  let '(l, _, r) := rpartition_char 32 (strip line) in
  str_eqb (strip l) (lit "FILE") && str_eqb (strip r) (lit "LOCATION").

Lemma loop_skips_narrative narr : forallb (fun l => negb (is_header_line l)) narr = true ->
  forall st rest, contents_loop true false st (narr ++ rest) = contents_loop true false st rest.
Proof.
  induction narr as [|l narr IH]; intros H st rest; [reflexivity|].
  cbn [forallb] in H. apply andb_true_iff in H as [Hl Hn]. apply negb_true_iff in Hl.
  cbn [app contents_loop]. unfold is_header_line in Hl.
  destruct (rpartition_char 32 (strip l)) as [[a f] b]. rewrite Hl. cbn [negb]. now apply IH.
Qed.

(* free text before the FILE/LOCATION row is ignored when a header is declared *)
Theorem header_ignored narr hdr lines st :
  forallb (fun l => negb (is_header_line l)) narr = true -> is_header_line hdr = true ->
  contents_loop true false st (narr ++ hdr :: lines) = contents_loop true true st lines.
Proof.
  intros Hn Hh. rewrite loop_skips_narrative by exact Hn. cbn [contents_loop].
  unfold is_header_line in Hh. destruct (rpartition_char 32 (strip hdr)) as [[a f] b]. now rewrite Hh.
Qed.

(* a declared header that is missing raises *)
Theorem header_missing lines : forallb (fun l => negb (is_header_line l)) lines = true ->
  parse_contents_lines true lines = Raise PyException.
Proof.
  intros H. unfold parse_contents_lines. cbn [negb].
  rewrite <- (app_nil_r lines). rewrite loop_skips_narrative by exact H. reflexivity.
Qed.

(* an undeclared header that is present raises *)
Theorem header_undeclared pre hdr post :
  forallb (fun l => negb (is_header_line l)) pre = true -> is_header_line hdr = true ->
  parse_contents_lines false (pre ++ hdr :: post) = Raise PyException.
Proof.
  intros Hp Hh. unfold parse_contents_lines. cbn [negb].
  assert (G : forall st, contents_loop false true st (pre ++ hdr :: post) = Raise PyException).
  { induction pre as [|l pre IH]; intros st.
    - cbn [app contents_loop]. unfold is_header_line in Hh.
      destruct (rpartition_char 32 (strip hdr)) as [[a f] b]. now rewrite Hh.
    - cbn [forallb] in Hp. apply andb_true_iff in Hp as [Hl Hp]. apply negb_true_iff in Hl.
      cbn [app contents_loop]. unfold is_header_line in Hl.
      destruct (rpartition_char 32 (strip l)) as [[a f] b]. rewrite Hl. cbn [negb]. now apply IH. }
  now rewrite G.
Qed.
