(* Algebra of three-way comparisons: a comparison function that is a total
   preorder, closed under lexicographic pairs and padded lexicographic lists. *)
From Coq Require Import NArith ZArith List Bool Lia.
From DI Require Import PyStr Dpkg.
Import ListNotations.

Record CmpOK {A : Type} (cmp : A -> A -> comparison) : Prop := {
  cmp_antisym : forall a b, cmp a b = CompOpp (cmp b a);
  cmp_eq_l : forall a b c, cmp a b = Eq -> cmp a c = cmp b c;
  cmp_lt_trans : forall a b c, cmp a b = Lt -> cmp b c = Lt -> cmp a c = Lt;
}.

Section Derived.
  Context {A : Type} {cmp : A -> A -> comparison} (H : CmpOK cmp).

  Lemma cmp_refl a : cmp a a = Eq.
  Proof. pose proof (cmp_antisym cmp H a a) as E. destruct (cmp a a); simpl in E; congruence. Qed.

  Lemma cmp_eq_sym a b : cmp a b = Eq -> cmp b a = Eq.
  Proof. intros E. rewrite (cmp_antisym cmp H). now rewrite E. Qed.

  Lemma cmp_eq_r a b c : cmp b c = Eq -> cmp a b = cmp a c.
  Proof.
    intros E. rewrite (cmp_antisym cmp H a b), (cmp_antisym cmp H a c).
    f_equal. symmetry. apply (cmp_eq_l cmp H). now apply cmp_eq_sym.
  Qed.

  Lemma cmp_gt_lt a b : cmp a b = Gt <-> cmp b a = Lt.
  Proof. rewrite (cmp_antisym cmp H a b). destruct (cmp b a); simpl; split; congruence. Qed.

  Lemma cmp_gt_trans a b c : cmp a b = Gt -> cmp b c = Gt -> cmp a c = Gt.
  Proof.
    rewrite !cmp_gt_lt. intros H1 H2. eapply (cmp_lt_trans cmp H); eassumption.
  Qed.

  (* transitivity of "not after" *)
  Lemma cmp_le_trans a b c : cmp a b <> Gt -> cmp b c <> Gt -> cmp a c <> Gt.
  Proof.
    intros H1 H2. destruct (cmp a b) eqn:E1; [| |congruence].
    - rewrite (cmp_eq_l cmp H a b c E1). exact H2.
    - destruct (cmp b c) eqn:E2; [| |congruence].
      + rewrite <- (cmp_eq_r a b c E2). congruence.
      + rewrite (cmp_lt_trans cmp H a b c E1 E2). congruence.
  Qed.

  Lemma cmp_lt_le_trans a b c : cmp a b = Lt -> cmp b c <> Gt -> cmp a c = Lt.
  Proof.
    intros H1 H2. destruct (cmp b c) eqn:E2; [| |congruence].
    - now rewrite <- (cmp_eq_r a b c E2).
    - exact (cmp_lt_trans cmp H a b c H1 E2).
  Qed.

  Lemma cmp_le_lt_trans a b c : cmp a b <> Gt -> cmp b c = Lt -> cmp a c = Lt.
  Proof.
    intros H1 H2. destruct (cmp a b) eqn:E1; [| |congruence].
    - now rewrite (cmp_eq_l cmp H a b c E1).
    - exact (cmp_lt_trans cmp H a b c E1 H2).
  Qed.
End Derived.

Lemma N_compare_ok : CmpOK N.compare.
Proof.
  constructor.
  - intros a b. apply N.compare_antisym.
  - intros a b c E. apply N.compare_eq in E. now subst.
  - intros a b c H1 H2. rewrite N.compare_lt_iff in *. lia.
Qed.

(* lexicographic pair *)
Section Pair.
  Context {A B : Type} (ca : A -> A -> comparison) (cb : B -> B -> comparison).
  Definition cmp_pair (x y : A * B) : comparison :=
    match ca (fst x) (fst y) with Eq => cb (snd x) (snd y) | c => c end.

  Lemma cmp_pair_ok : CmpOK ca -> CmpOK cb -> CmpOK cmp_pair.
  Proof.
    intros Ha Hb. constructor.
    - intros [a1 b1] [a2 b2]. unfold cmp_pair. simpl.
      rewrite (cmp_antisym ca Ha a1 a2). destruct (ca a2 a1); simpl; [apply (cmp_antisym cb Hb)|reflexivity|reflexivity].
    - intros [a1 b1] [a2 b2] [a3 b3]. unfold cmp_pair. simpl. intros E.
      destruct (ca a1 a2) eqn:E1; try discriminate.
      rewrite (cmp_eq_l ca Ha a1 a2 a3 E1). destruct (ca a2 a3); [apply (cmp_eq_l cb Hb); exact E|reflexivity|reflexivity].
    - intros [a1 b1] [a2 b2] [a3 b3]. unfold cmp_pair. simpl. intros H1 H2.
      destruct (ca a1 a2) eqn:E1; try discriminate.
      + rewrite (cmp_eq_l ca Ha a1 a2 a3 E1). destruct (ca a2 a3); try discriminate; [|reflexivity].
        eapply (cmp_lt_trans cb Hb); eassumption.
      + destruct (ca a2 a3) eqn:E2; try discriminate.
        * now rewrite <- (cmp_eq_r Ha a1 a2 a3 E2), E1.
        * now rewrite (cmp_lt_trans ca Ha a1 a2 a3 E1 E2).
  Qed.
End Pair.

(* padded lexicographic lists *)
Section PadLexFacts.
  Context {A : Type} (cmp : A -> A -> comparison) (d : A) (H : CmpOK cmp).

  Definition hdd (l : list A) : A := match l with [] => d | x :: _ => x end.

  Lemma plex_step l1 l2 :
    plex cmp d l1 l2 =
    match cmp (hdd l1) (hdd l2) with Eq => plex cmp d (tl l1) (tl l2) | c => c end.
  Proof.
    destruct l1 as [|x l1], l2 as [|y l2]; simpl; try reflexivity.
    now rewrite (cmp_refl H d).
  Qed.

  Lemma length_tl_le (l : list A) n : (length l <= S n -> length (tl l) <= n)%nat.
  Proof. destruct l; simpl; lia. Qed.

  Lemma nil_of_length0 (l : list A) : (length l <= 0)%nat -> l = [].
  Proof. destruct l; simpl; [reflexivity|lia]. Qed.

  Lemma plex_antisym l1 l2 : plex cmp d l1 l2 = CompOpp (plex cmp d l2 l1).
  Proof.
    assert (G : forall n l1 l2, (length l1 <= n)%nat -> (length l2 <= n)%nat ->
                plex cmp d l1 l2 = CompOpp (plex cmp d l2 l1)).
    { induction n as [|n IH]; intros a b Ha Hb.
      - apply nil_of_length0 in Ha, Hb. subst. reflexivity.
      - rewrite (plex_step a b), (plex_step b a).
        rewrite (cmp_antisym cmp H (hdd a) (hdd b)).
        destruct (cmp (hdd b) (hdd a)); simpl; try reflexivity.
        apply IH; now apply length_tl_le. }
    apply (G (max (length l1) (length l2))); lia.
  Qed.

  Lemma plex_eq_l l1 l2 l3 : plex cmp d l1 l2 = Eq -> plex cmp d l1 l3 = plex cmp d l2 l3.
  Proof.
    assert (G : forall n l1 l2 l3, (length l1 <= n)%nat -> (length l2 <= n)%nat -> (length l3 <= n)%nat ->
                plex cmp d l1 l2 = Eq -> plex cmp d l1 l3 = plex cmp d l2 l3).
    { induction n as [|n IH]; intros a b c Ha Hb Hc E.
      - apply nil_of_length0 in Ha, Hb, Hc. subst. reflexivity.
      - rewrite (plex_step a b) in E. rewrite (plex_step a c), (plex_step b c).
        destruct (cmp (hdd a) (hdd b)) eqn:Eh; try discriminate.
        rewrite (cmp_eq_l cmp H _ _ (hdd c) Eh).
        destruct (cmp (hdd b) (hdd c)); try reflexivity.
        apply IH; try (now apply length_tl_le). exact E. }
    apply (G (max (length l1) (max (length l2) (length l3)))); lia.
  Qed.

  Lemma plex_lt_trans l1 l2 l3 :
    plex cmp d l1 l2 = Lt -> plex cmp d l2 l3 = Lt -> plex cmp d l1 l3 = Lt.
  Proof.
    assert (G : forall n l1 l2 l3, (length l1 <= n)%nat -> (length l2 <= n)%nat -> (length l3 <= n)%nat ->
                plex cmp d l1 l2 = Lt -> plex cmp d l2 l3 = Lt -> plex cmp d l1 l3 = Lt).
    { induction n as [|n IH]; intros a b c Ha Hb Hc E1 E2.
      - apply nil_of_length0 in Ha, Hb, Hc. subst. discriminate.
      - rewrite (plex_step a b) in E1. rewrite (plex_step b c) in E2. rewrite (plex_step a c).
        destruct (cmp (hdd a) (hdd b)) eqn:Eab; try discriminate.
        + rewrite (cmp_eq_l cmp H _ _ (hdd c) Eab).
          destruct (cmp (hdd b) (hdd c)); try discriminate; [|reflexivity].
          apply (IH _ (tl b)); try (now apply length_tl_le); assumption.
        + destruct (cmp (hdd b) (hdd c)) eqn:Ebc; try discriminate.
          * now rewrite <- (cmp_eq_r H _ _ _ Ebc), Eab.
          * now rewrite (cmp_lt_trans cmp H _ _ _ Eab Ebc). }
    apply (G (max (length l1) (max (length l2) (length l3)))); lia.
  Qed.

  Lemma plex_ok : CmpOK (plex cmp d).
  Proof.
    constructor; [exact plex_antisym|exact plex_eq_l|exact plex_lt_trans].
  Qed.
End PadLexFacts.
