(* C01: the comparison of the model is dpkg's (verrevcmp / dpkg_version_compare). *)
From Coq Require Import NArith ZArith List Bool Lia.
From DI Require Import Result PyStr PyStrFacts Version Dpkg Policy OrderFacts VersionFacts ParseFacts VersionOrder DpkgFacts.
Import ListNotations.
Open Scope N_scope.

Theorem compare_strings_verrevcmp x y :
  allowed x -> allowed y -> compare_strings x y = Ok (Z.sgn (verrevcmp x y)).
Proof. intros Ax Ay. rewrite verrevcmp_key. now apply compare_strings_key. Qed.

(* a missing revision (dpkg: the empty string) orders like revision "0" *)
Lemma key_zero : key [48] = [empty_block].
Proof. reflexivity. Qed.

Lemma cmp_key_zero_l k : cmp_key (key [48]) k = cmp_key (key []) k.
Proof.
  rewrite key_zero, key_nil. unfold cmp_key.
  rewrite (plex_step cmp_block empty_block cmp_block_ok [empty_block] k).
  rewrite (plex_step cmp_block empty_block cmp_block_ok [] k). reflexivity.
Qed.

Lemma cmp_key_zero_r k : cmp_key k (key [48]) = cmp_key k (key []).
Proof.
  rewrite (cmp_antisym cmp_key cmp_key_ok k (key [48])), (cmp_antisym cmp_key cmp_key_ok k (key [])).
  now rewrite cmp_key_zero_l.
Qed.

Definition rev_or_empty (r : option str) : str := match r with Some r => r | None => [] end.

Lemma dpkg_split_policy t :
  dpkg_split t =
  let '(e, u, r) := policy_split t in
  (match e with Some e => dec_to_N e | None => 0 end, u, rev_or_empty r).
Proof.
  unfold dpkg_split, policy_split.
  destruct (mem_char 58 t); [destruct (partition_char 58 t) as [[e f] rest]|].
  - destruct (mem_char 45 rest); [destruct (rpartition_char 45 rest) as [[u g] r]|]; reflexivity.
  - destruct (mem_char 45 t); [destruct (rpartition_char 45 t) as [[u g] r]|]; reflexivity.
Qed.

Lemma sgn_dpkg_version_compare ea ua ra eb ub rb :
  Z.sgn (dpkg_version_compare ea ua ra eb ub rb) =
  Z_of_cmp (kcmp (ea, (key ua, key ra)) (eb, (key ub, key rb))).
Proof.
  unfold dpkg_version_compare, kcmp, cmp_pair. cbn [fst snd].
  destruct (ea ?= eb) eqn:Ee.
  - apply N.compare_eq in Ee. subst eb. rewrite N.ltb_irrefl.
    pose proof (verrevcmp_key ua ub) as H1.
    destruct (Z.eqb_spec (verrevcmp ua ub) 0) as [E|E]; cbn [negb].
    + rewrite E in H1. cbn in H1. destruct (cmp_key (key ua) (key ub)); try discriminate. apply verrevcmp_key.
    + rewrite H1. destruct (cmp_key (key ua) (key ub)) eqn:Ec; try reflexivity.
      exfalso. apply E. apply Z.sgn_null_iff. exact H1.
  - apply N.compare_lt_iff in Ee. apply N.ltb_lt in Ee. now rewrite Ee.
  - apply N.compare_gt_iff in Ee. assert (E1 : ea <? eb = false) by (apply N.ltb_ge; lia).
    apply N.ltb_lt in Ee. now rewrite E1, Ee.
Qed.

Definition rev_or_zero (r : option str) : str := match r with Some r => r | None => [48] end.

Lemma cmp_key_rev ra rb :
  cmp_key (key (rev_or_zero ra)) (key (rev_or_zero rb)) =
  cmp_key (key (rev_or_empty ra)) (key (rev_or_empty rb)).
Proof.
  destruct ra, rb; cbn [rev_or_zero rev_or_empty]; try reflexivity.
  - apply cmp_key_zero_r.
  - apply cmp_key_zero_l.
Qed.

Theorem compare_versions_dpkg a b va vb :
  from_string a = Ok va -> from_string b = Ok vb ->
  compare_versions a b = Ok (Z.sgn (dpkg_compare_strings (strip a) (strip b))).
Proof.
  intros Ha Hb. rewrite (compare_versions_vcmp a b va vb Ha Hb). f_equal.
  unfold dpkg_compare_strings. rewrite !dpkg_split_policy.
  pose proof (decomposition a va Ha) as Da. pose proof (decomposition b vb Hb) as Db.
  unfold policy_triple in Da, Db.
  destruct (policy_split (strip a)) as [[ea ua] ra]. destruct (policy_split (strip b)) as [[eb ub] rb].
  rewrite sgn_dpkg_version_compare. f_equal.
  inversion Da as [[Ea Ua Ra]]. inversion Db as [[Eb Ub Rb]].
  unfold vcmp, vkey, kcmp, cmp_pair. cbn [fst snd]. rewrite Ea, Ua, Ra, Eb, Ub, Rb.
  fold (rev_or_zero ra). fold (rev_or_zero rb). now rewrite cmp_key_rev.
Qed.
