Model/UnicodeTables.vo Model/UnicodeTables.glob Model/UnicodeTables.v.beautified Model/UnicodeTables.required_vo: Model/UnicodeTables.v 
Model/UnicodeTables.vio: Model/UnicodeTables.v 
Model/UnicodeTables.vos Model/UnicodeTables.vok Model/UnicodeTables.required_vos: Model/UnicodeTables.v 
Model/Result.vo Model/Result.glob Model/Result.v.beautified Model/Result.required_vo: Model/Result.v 
Model/Result.vio: Model/Result.v 
Model/Result.vos Model/Result.vok Model/Result.required_vos: Model/Result.v 
Model/PyStr.vo Model/PyStr.glob Model/PyStr.v.beautified Model/PyStr.required_vo: Model/PyStr.v Model/UnicodeTables.vo
Model/PyStr.vio: Model/PyStr.v Model/UnicodeTables.vio
Model/PyStr.vos Model/PyStr.vok Model/PyStr.required_vos: Model/PyStr.v Model/UnicodeTables.vos
Model/Val.vo Model/Val.glob Model/Val.v.beautified Model/Val.required_vo: Model/Val.v Model/Result.vo Model/PyStr.vo
Model/Val.vio: Model/Val.v Model/Result.vio Model/PyStr.vio
Model/Val.vos Model/Val.vok Model/Val.required_vos: Model/Val.v Model/Result.vos Model/PyStr.vos
Model/Codec.vo Model/Codec.glob Model/Codec.v.beautified Model/Codec.required_vo: Model/Codec.v Model/PyStr.vo
Model/Codec.vio: Model/Codec.v Model/PyStr.vio
Model/Codec.vos Model/Codec.vok Model/Codec.required_vos: Model/Codec.v Model/PyStr.vos
Model/Dispatch.vo Model/Dispatch.glob Model/Dispatch.v.beautified Model/Dispatch.required_vo: Model/Dispatch.v Model/Result.vo Model/PyStr.vo Model/Val.vo Model/Codec.vo
Model/Dispatch.vio: Model/Dispatch.v Model/Result.vio Model/PyStr.vio Model/Val.vio Model/Codec.vio
Model/Dispatch.vos Model/Dispatch.vok Model/Dispatch.required_vos: Model/Dispatch.v Model/Result.vos Model/PyStr.vos Model/Val.vos Model/Codec.vos
Extract/Extract.vo Extract/Extract.glob Extract/Extract.v.beautified Extract/Extract.required_vo: Extract/Extract.v Model/Dispatch.vo
Extract/Extract.vio: Extract/Extract.v Model/Dispatch.vio
Extract/Extract.vos Extract/Extract.vok Extract/Extract.required_vos: Extract/Extract.v Model/Dispatch.vos
