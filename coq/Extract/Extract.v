(* Extraction of the executable model to OCaml.  ExtrOcamlBasic only: bool,
   option, unit, prod, list, sumbool map to the OCaml types; N, Z, positive,
   nat stay extracted inductives; no Extract Constant. *)
From Coq Require Import Extraction ExtrOcamlBasic.
From DI Require Import Dispatch.
Extraction "../ocaml/model.ml" Dispatch.run.
