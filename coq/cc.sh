#!/bin/sh
exec timeout ${T:-300} coqc -q -Q Model DI -Q Spec DI -Q Proofs DI -Q Properties DI -Q Findings DI -Q Extract DI "$@"
