
type nat =
| O
| S of nat

(** val fst : ('a1 * 'a2) -> 'a1 **)

let fst = function
| (x, _) -> x

(** val snd : ('a1 * 'a2) -> 'a2 **)

let snd = function
| (_, y) -> y

(** val length : 'a1 list -> nat **)

let rec length = function
| [] -> O
| _ :: l' -> S (length l')

(** val app : 'a1 list -> 'a1 list -> 'a1 list **)

let rec app l m =
  match l with
  | [] -> m
  | a :: l1 -> a :: (app l1 m)

type comparison =
| Eq
| Lt
| Gt

module Coq__1 = struct
 (** val add : nat -> nat -> nat **)
 let rec add n0 m =
   match n0 with
   | O -> m
   | S p -> S (add p m)
end
include Coq__1

type positive =
| XI of positive
| XO of positive
| XH

type n =
| N0
| Npos of positive

type z =
| Z0
| Zpos of positive
| Zneg of positive

module Pos =
 struct
  type mask =
  | IsNul
  | IsPos of positive
  | IsNeg
 end

module Coq_Pos =
 struct
  (** val succ : positive -> positive **)

  let rec succ = function
  | XI p -> XO (succ p)
  | XO p -> XI p
  | XH -> XO XH

  (** val add : positive -> positive -> positive **)

  let rec add x y =
    match x with
    | XI p ->
      (match y with
       | XI q -> XO (add_carry p q)
       | XO q -> XI (add p q)
       | XH -> XO (succ p))
    | XO p ->
      (match y with
       | XI q -> XI (add p q)
       | XO q -> XO (add p q)
       | XH -> XI p)
    | XH -> (match y with
             | XI q -> XO (succ q)
             | XO q -> XI q
             | XH -> XO XH)

  (** val add_carry : positive -> positive -> positive **)

  and add_carry x y =
    match x with
    | XI p ->
      (match y with
       | XI q -> XI (add_carry p q)
       | XO q -> XO (add_carry p q)
       | XH -> XI (succ p))
    | XO p ->
      (match y with
       | XI q -> XO (add_carry p q)
       | XO q -> XI (add p q)
       | XH -> XO (succ p))
    | XH ->
      (match y with
       | XI q -> XI (succ q)
       | XO q -> XO (succ q)
       | XH -> XI XH)

  (** val pred_double : positive -> positive **)

  let rec pred_double = function
  | XI p -> XI (XO p)
  | XO p -> XI (pred_double p)
  | XH -> XH

  type mask = Pos.mask =
  | IsNul
  | IsPos of positive
  | IsNeg

  (** val succ_double_mask : mask -> mask **)

  let succ_double_mask = function
  | IsNul -> IsPos XH
  | IsPos p -> IsPos (XI p)
  | IsNeg -> IsNeg

  (** val double_mask : mask -> mask **)

  let double_mask = function
  | IsPos p -> IsPos (XO p)
  | x0 -> x0

  (** val double_pred_mask : positive -> mask **)

  let double_pred_mask = function
  | XI p -> IsPos (XO (XO p))
  | XO p -> IsPos (XO (pred_double p))
  | XH -> IsNul

  (** val sub_mask : positive -> positive -> mask **)

  let rec sub_mask x y =
    match x with
    | XI p ->
      (match y with
       | XI q -> double_mask (sub_mask p q)
       | XO q -> succ_double_mask (sub_mask p q)
       | XH -> IsPos (XO p))
    | XO p ->
      (match y with
       | XI q -> succ_double_mask (sub_mask_carry p q)
       | XO q -> double_mask (sub_mask p q)
       | XH -> IsPos (pred_double p))
    | XH -> (match y with
             | XH -> IsNul
             | _ -> IsNeg)

  (** val sub_mask_carry : positive -> positive -> mask **)

  and sub_mask_carry x y =
    match x with
    | XI p ->
      (match y with
       | XI q -> succ_double_mask (sub_mask_carry p q)
       | XO q -> double_mask (sub_mask p q)
       | XH -> IsPos (pred_double p))
    | XO p ->
      (match y with
       | XI q -> double_mask (sub_mask_carry p q)
       | XO q -> succ_double_mask (sub_mask_carry p q)
       | XH -> double_pred_mask p)
    | XH -> IsNeg

  (** val mul : positive -> positive -> positive **)

  let rec mul x y =
    match x with
    | XI p -> add y (XO (mul p y))
    | XO p -> XO (mul p y)
    | XH -> y

  (** val iter : ('a1 -> 'a1) -> 'a1 -> positive -> 'a1 **)

  let rec iter f x = function
  | XI n' -> f (iter f (iter f x n') n')
  | XO n' -> iter f (iter f x n') n'
  | XH -> f x

  (** val size : positive -> positive **)

  let rec size = function
  | XI p0 -> succ (size p0)
  | XO p0 -> succ (size p0)
  | XH -> XH

  (** val compare_cont : comparison -> positive -> positive -> comparison **)

  let rec compare_cont r x y =
    match x with
    | XI p ->
      (match y with
       | XI q -> compare_cont r p q
       | XO q -> compare_cont Gt p q
       | XH -> Gt)
    | XO p ->
      (match y with
       | XI q -> compare_cont Lt p q
       | XO q -> compare_cont r p q
       | XH -> Gt)
    | XH -> (match y with
             | XH -> r
             | _ -> Lt)

  (** val compare : positive -> positive -> comparison **)

  let compare =
    compare_cont Eq

  (** val eqb : positive -> positive -> bool **)

  let rec eqb p q =
    match p with
    | XI p0 -> (match q with
                | XI q0 -> eqb p0 q0
                | _ -> false)
    | XO p0 -> (match q with
                | XO q0 -> eqb p0 q0
                | _ -> false)
    | XH -> (match q with
             | XH -> true
             | _ -> false)

  (** val iter_op : ('a1 -> 'a1 -> 'a1) -> positive -> 'a1 -> 'a1 **)

  let rec iter_op op p a =
    match p with
    | XI p0 -> op a (iter_op op p0 (op a a))
    | XO p0 -> iter_op op p0 (op a a)
    | XH -> a

  (** val to_nat : positive -> nat **)

  let to_nat x =
    iter_op Coq__1.add x (S O)

  (** val of_succ_nat : nat -> positive **)

  let rec of_succ_nat = function
  | O -> XH
  | S x -> succ (of_succ_nat x)
 end

module N =
 struct
  (** val succ_double : n -> n **)

  let succ_double = function
  | N0 -> Npos XH
  | Npos p -> Npos (XI p)

  (** val double : n -> n **)

  let double = function
  | N0 -> N0
  | Npos p -> Npos (XO p)

  (** val add : n -> n -> n **)

  let add n0 m =
    match n0 with
    | N0 -> m
    | Npos p -> (match m with
                 | N0 -> n0
                 | Npos q -> Npos (Coq_Pos.add p q))

  (** val sub : n -> n -> n **)

  let sub n0 m =
    match n0 with
    | N0 -> N0
    | Npos n' ->
      (match m with
       | N0 -> n0
       | Npos m' ->
         (match Coq_Pos.sub_mask n' m' with
          | Coq_Pos.IsPos p -> Npos p
          | _ -> N0))

  (** val mul : n -> n -> n **)

  let mul n0 m =
    match n0 with
    | N0 -> N0
    | Npos p -> (match m with
                 | N0 -> N0
                 | Npos q -> Npos (Coq_Pos.mul p q))

  (** val compare : n -> n -> comparison **)

  let compare n0 m =
    match n0 with
    | N0 -> (match m with
             | N0 -> Eq
             | Npos _ -> Lt)
    | Npos n' -> (match m with
                  | N0 -> Gt
                  | Npos m' -> Coq_Pos.compare n' m')

  (** val eqb : n -> n -> bool **)

  let eqb n0 m =
    match n0 with
    | N0 -> (match m with
             | N0 -> true
             | Npos _ -> false)
    | Npos p -> (match m with
                 | N0 -> false
                 | Npos q -> Coq_Pos.eqb p q)

  (** val leb : n -> n -> bool **)

  let leb x y =
    match compare x y with
    | Gt -> false
    | _ -> true

  (** val log2 : n -> n **)

  let log2 = function
  | N0 -> N0
  | Npos p0 ->
    (match p0 with
     | XI p -> Npos (Coq_Pos.size p)
     | XO p -> Npos (Coq_Pos.size p)
     | XH -> N0)

  (** val pos_div_eucl : positive -> n -> n * n **)

  let rec pos_div_eucl a b =
    match a with
    | XI a' ->
      let (q, r) = pos_div_eucl a' b in
      let r' = succ_double r in
      if leb b r' then ((succ_double q), (sub r' b)) else ((double q), r')
    | XO a' ->
      let (q, r) = pos_div_eucl a' b in
      let r' = double r in
      if leb b r' then ((succ_double q), (sub r' b)) else ((double q), r')
    | XH ->
      (match b with
       | N0 -> (N0, (Npos XH))
       | Npos p -> (match p with
                    | XH -> ((Npos XH), N0)
                    | _ -> (N0, (Npos XH))))

  (** val div_eucl : n -> n -> n * n **)

  let div_eucl a b =
    match a with
    | N0 -> (N0, N0)
    | Npos na -> (match b with
                  | N0 -> (N0, a)
                  | Npos _ -> pos_div_eucl na b)

  (** val div : n -> n -> n **)

  let div a b =
    fst (div_eucl a b)

  (** val modulo : n -> n -> n **)

  let modulo a b =
    snd (div_eucl a b)

  (** val to_nat : n -> nat **)

  let to_nat = function
  | N0 -> O
  | Npos p -> Coq_Pos.to_nat p

  (** val of_nat : nat -> n **)

  let of_nat = function
  | O -> N0
  | S n' -> Npos (Coq_Pos.of_succ_nat n')

  (** val iter : n -> ('a1 -> 'a1) -> 'a1 -> 'a1 **)

  let iter n0 f x =
    match n0 with
    | N0 -> x
    | Npos p -> Coq_Pos.iter f x p
 end

(** val tl : 'a1 list -> 'a1 list **)

let tl = function
| [] -> []
| _ :: m -> m

(** val rev : 'a1 list -> 'a1 list **)

let rec rev = function
| [] -> []
| x :: l' -> app (rev l') (x :: [])

(** val map : ('a1 -> 'a2) -> 'a1 list -> 'a2 list **)

let rec map f = function
| [] -> []
| a :: t -> (f a) :: (map f t)

(** val flat_map : ('a1 -> 'a2 list) -> 'a1 list -> 'a2 list **)

let rec flat_map f = function
| [] -> []
| x :: t -> app (f x) (flat_map f t)

(** val forallb : ('a1 -> bool) -> 'a1 list -> bool **)

let rec forallb f = function
| [] -> true
| a :: l0 -> (&&) (f a) (forallb f l0)

(** val skipn : nat -> 'a1 list -> 'a1 list **)

let rec skipn n0 l =
  match n0 with
  | O -> l
  | S n1 -> (match l with
             | [] -> []
             | _ :: l0 -> skipn n1 l0)

module Z =
 struct
  (** val of_N : n -> z **)

  let of_N = function
  | N0 -> Z0
  | Npos p -> Zpos p
 end

type ascii =
| Ascii of bool * bool * bool * bool * bool * bool * bool * bool

(** val n_of_digits : bool list -> n **)

let rec n_of_digits = function
| [] -> N0
| b :: l' ->
  N.add (if b then Npos XH else N0) (N.mul (Npos (XO XH)) (n_of_digits l'))

(** val n_of_ascii : ascii -> n **)

let n_of_ascii = function
| Ascii (a0, a1, a2, a3, a4, a5, a6, a7) ->
  n_of_digits
    (a0 :: (a1 :: (a2 :: (a3 :: (a4 :: (a5 :: (a6 :: (a7 :: []))))))))

type string =
| EmptyString
| String of ascii * string

type exn =
| ValueError
| AssertionError
| AttributeError
| TypeError
| KeyError
| IndexError
| NotImplementedError
| PyException
| UnboundLocalError

(** val nd_ranges : (n * n) list **)

let nd_ranges =
  ((Npos (XO (XO (XO (XO (XI XH)))))), (Npos (XI (XO (XO (XI (XI
    XH))))))) :: (((Npos (XO (XO (XO (XO (XO (XI (XI (XO (XO (XI
    XH))))))))))), (Npos (XI (XO (XO (XI (XO (XI (XI (XO (XO (XI
    XH)))))))))))) :: (((Npos (XO (XO (XO (XO (XI (XI (XI (XI (XO (XI
    XH))))))))))), (Npos (XI (XO (XO (XI (XI (XI (XI (XI (XO (XI
    XH)))))))))))) :: (((Npos (XO (XO (XO (XO (XO (XO (XI (XI (XI (XI
    XH))))))))))), (Npos (XI (XO (XO (XI (XO (XO (XI (XI (XI (XI
    XH)))))))))))) :: (((Npos (XO (XI (XI (XO (XO (XI (XI (XO (XI (XO (XO
    XH)))))))))))), (Npos (XI (XI (XI (XI (XO (XI (XI (XO (XI (XO (XO
    XH))))))))))))) :: (((Npos (XO (XI (XI (XO (XO (XI (XI (XI (XI (XO (XO
    XH)))))))))))), (Npos (XI (XI (XI (XI (XO (XI (XI (XI (XI (XO (XO
    XH))))))))))))) :: (((Npos (XO (XI (XI (XO (XO (XI (XI (XO (XO (XI (XO
    XH)))))))))))), (Npos (XI (XI (XI (XI (XO (XI (XI (XO (XO (XI (XO
    XH))))))))))))) :: (((Npos (XO (XI (XI (XO (XO (XI (XI (XI (XO (XI (XO
    XH)))))))))))), (Npos (XI (XI (XI (XI (XO (XI (XI (XI (XO (XI (XO
    XH))))))))))))) :: (((Npos (XO (XI (XI (XO (XO (XI (XI (XO (XI (XI (XO
    XH)))))))))))), (Npos (XI (XI (XI (XI (XO (XI (XI (XO (XI (XI (XO
    XH))))))))))))) :: (((Npos (XO (XI (XI (XO (XO (XI (XI (XI (XI (XI (XO
    XH)))))))))))), (Npos (XI (XI (XI (XI (XO (XI (XI (XI (XI (XI (XO
    XH))))))))))))) :: (((Npos (XO (XI (XI (XO (XO (XI (XI (XO (XO (XO (XI
    XH)))))))))))), (Npos (XI (XI (XI (XI (XO (XI (XI (XO (XO (XO (XI
    XH))))))))))))) :: (((Npos (XO (XI (XI (XO (XO (XI (XI (XI (XO (XO (XI
    XH)))))))))))), (Npos (XI (XI (XI (XI (XO (XI (XI (XI (XO (XO (XI
    XH))))))))))))) :: (((Npos (XO (XI (XI (XO (XO (XI (XI (XO (XI (XO (XI
    XH)))))))))))), (Npos (XI (XI (XI (XI (XO (XI (XI (XO (XI (XO (XI
    XH))))))))))))) :: (((Npos (XO (XI (XI (XO (XO (XI (XI (XI (XI (XO (XI
    XH)))))))))))), (Npos (XI (XI (XI (XI (XO (XI (XI (XI (XI (XO (XI
    XH))))))))))))) :: (((Npos (XO (XO (XO (XO (XI (XO (XI (XO (XO (XI (XI
    XH)))))))))))), (Npos (XI (XO (XO (XI (XI (XO (XI (XO (XO (XI (XI
    XH))))))))))))) :: (((Npos (XO (XO (XO (XO (XI (XO (XI (XI (XO (XI (XI
    XH)))))))))))), (Npos (XI (XO (XO (XI (XI (XO (XI (XI (XO (XI (XI
    XH))))))))))))) :: (((Npos (XO (XO (XO (XO (XO (XI (XO (XO (XI (XI (XI
    XH)))))))))))), (Npos (XI (XO (XO (XI (XO (XI (XO (XO (XI (XI (XI
    XH))))))))))))) :: (((Npos (XO (XO (XO (XO (XO (XO (XI (XO (XO (XO (XO
    (XO XH))))))))))))), (Npos (XI (XO (XO (XI (XO (XO (XI (XO (XO (XO (XO
    (XO XH)))))))))))))) :: (((Npos (XO (XO (XO (XO (XI (XO (XO (XI (XO (XO
    (XO (XO XH))))))))))))), (Npos (XI (XO (XO (XI (XI (XO (XO (XI (XO (XO
    (XO (XO XH)))))))))))))) :: (((Npos (XO (XO (XO (XO (XO (XI (XI (XI (XI
    (XI (XI (XO XH))))))))))))), (Npos (XI (XO (XO (XI (XO (XI (XI (XI (XI
    (XI (XI (XO XH)))))))))))))) :: (((Npos (XO (XO (XO (XO (XI (XO (XO (XO
    (XO (XO (XO (XI XH))))))))))))), (Npos (XI (XO (XO (XI (XI (XO (XO (XO
    (XO (XO (XO (XI XH)))))))))))))) :: (((Npos (XO (XI (XI (XO (XO (XO (XI
    (XO (XI (XO (XO (XI XH))))))))))))), (Npos (XI (XI (XI (XI (XO (XO (XI
    (XO (XI (XO (XO (XI XH)))))))))))))) :: (((Npos (XO (XO (XO (XO (XI (XO
    (XI (XI (XI (XO (XO (XI XH))))))))))))), (Npos (XI (XO (XO (XI (XI (XO
    (XI (XI (XI (XO (XO (XI XH)))))))))))))) :: (((Npos (XO (XO (XO (XO (XO
    (XO (XO (XI (XO (XI (XO (XI XH))))))))))))), (Npos (XI (XO (XO (XI (XO
    (XO (XO (XI (XO (XI (XO (XI XH)))))))))))))) :: (((Npos (XO (XO (XO (XO
    (XI (XO (XO (XI (XO (XI (XO (XI XH))))))))))))), (Npos (XI (XO (XO (XI
    (XI (XO (XO (XI (XO (XI (XO (XI XH)))))))))))))) :: (((Npos (XO (XO (XO
    (XO (XI (XO (XI (XO (XI (XI (XO (XI XH))))))))))))), (Npos (XI (XO (XO
    (XI (XI (XO (XI (XO (XI (XI (XO (XI XH)))))))))))))) :: (((Npos (XO (XO
    (XO (XO (XI (XI (XO (XI (XI (XI (XO (XI XH))))))))))))), (Npos (XI (XO
    (XO (XI (XI (XI (XO (XI (XI (XI (XO (XI XH)))))))))))))) :: (((Npos (XO
    (XO (XO (XO (XO (XO (XI (XO (XO (XO (XI (XI XH))))))))))))), (Npos (XI
    (XO (XO (XI (XO (XO (XI (XO (XO (XO (XI (XI XH)))))))))))))) :: (((Npos
    (XO (XO (XO (XO (XI (XO (XI (XO (XO (XO (XI (XI XH))))))))))))), (Npos
    (XI (XO (XO (XI (XI (XO (XI (XO (XO (XO (XI (XI
    XH)))))))))))))) :: (((Npos (XO (XO (XO (XO (XO (XI (XO (XO (XO (XI (XI
    (XO (XO (XI (XO XH)))))))))))))))), (Npos (XI (XO (XO (XI (XO (XI (XO (XO
    (XO (XI (XI (XO (XO (XI (XO XH))))))))))))))))) :: (((Npos (XO (XO (XO
    (XO (XI (XO (XI (XI (XO (XO (XO (XI (XO (XI (XO XH)))))))))))))))), (Npos
    (XI (XO (XO (XI (XI (XO (XI (XI (XO (XO (XO (XI (XO (XI (XO
    XH))))))))))))))))) :: (((Npos (XO (XO (XO (XO (XO (XO (XO (XO (XI (XO
    (XO (XI (XO (XI (XO XH)))))))))))))))), (Npos (XI (XO (XO (XI (XO (XO (XO
    (XO (XI (XO (XO (XI (XO (XI (XO XH))))))))))))))))) :: (((Npos (XO (XO
    (XO (XO (XI (XO (XI (XI (XI (XO (XO (XI (XO (XI (XO XH)))))))))))))))),
    (Npos (XI (XO (XO (XI (XI (XO (XI (XI (XI (XO (XO (XI (XO (XI (XO
    XH))))))))))))))))) :: (((Npos (XO (XO (XO (XO (XI (XI (XI (XI (XI (XO
    (XO (XI (XO (XI (XO XH)))))))))))))))), (Npos (XI (XO (XO (XI (XI (XI (XI
    (XI (XI (XO (XO (XI (XO (XI (XO XH))))))))))))))))) :: (((Npos (XO (XO
    (XO (XO (XI (XO (XI (XO (XO (XI (XO (XI (XO (XI (XO XH)))))))))))))))),
    (Npos (XI (XO (XO (XI (XI (XO (XI (XO (XO (XI (XO (XI (XO (XI (XO
    XH))))))))))))))))) :: (((Npos (XO (XO (XO (XO (XI (XI (XI (XI (XI (XI
    (XO (XI (XO (XI (XO XH)))))))))))))))), (Npos (XI (XO (XO (XI (XI (XI (XI
    (XI (XI (XI (XO (XI (XO (XI (XO XH))))))))))))))))) :: (((Npos (XO (XO
    (XO (XO (XI (XO (XO (XO (XI (XI (XI (XI (XI (XI (XI XH)))))))))))))))),
    (Npos (XI (XO (XO (XI (XI (XO (XO (XO (XI (XI (XI (XI (XI (XI (XI
    XH))))))))))))))))) :: (((Npos (XO (XO (XO (XO (XO (XI (XO (XI (XO (XO
    (XI (XO (XO (XO (XO (XO XH))))))))))))))))), (Npos (XI (XO (XO (XI (XO
    (XI (XO (XI (XO (XO (XI (XO (XO (XO (XO (XO
    XH)))))))))))))))))) :: (((Npos (XO (XO (XO (XO (XI (XI (XO (XO (XI (XO
    (XI (XI (XO (XO (XO (XO XH))))))))))))))))), (Npos (XI (XO (XO (XI (XI
    (XI (XO (XO (XI (XO (XI (XI (XO (XO (XO (XO
    XH)))))))))))))))))) :: (((Npos (XO (XI (XI (XO (XO (XI (XI (XO (XO (XO
    (XO (XO (XI (XO (XO (XO XH))))))))))))))))), (Npos (XI (XI (XI (XI (XO
    (XI (XI (XO (XO (XO (XO (XO (XI (XO (XO (XO
    XH)))))))))))))))))) :: (((Npos (XO (XO (XO (XO (XI (XI (XI (XI (XO (XO
    (XO (XO (XI (XO (XO (XO XH))))))))))))))))), (Npos (XI (XO (XO (XI (XI
    (XI (XI (XI (XO (XO (XO (XO (XI (XO (XO (XO
    XH)))))))))))))))))) :: (((Npos (XO (XI (XI (XO (XI (XI (XO (XO (XI (XO
    (XO (XO (XI (XO (XO (XO XH))))))))))))))))), (Npos (XI (XI (XI (XI (XI
    (XI (XO (XO (XI (XO (XO (XO (XI (XO (XO (XO
    XH)))))))))))))))))) :: (((Npos (XO (XO (XO (XO (XI (XO (XI (XI (XI (XO
    (XO (XO (XI (XO (XO (XO XH))))))))))))))))), (Npos (XI (XO (XO (XI (XI
    (XO (XI (XI (XI (XO (XO (XO (XI (XO (XO (XO
    XH)))))))))))))))))) :: (((Npos (XO (XO (XO (XO (XI (XI (XI (XI (XO (XI
    (XO (XO (XI (XO (XO (XO XH))))))))))))))))), (Npos (XI (XO (XO (XI (XI
    (XI (XI (XI (XO (XI (XO (XO (XI (XO (XO (XO
    XH)))))))))))))))))) :: (((Npos (XO (XO (XO (XO (XI (XO (XI (XO (XO (XO
    (XI (XO (XI (XO (XO (XO XH))))))))))))))))), (Npos (XI (XO (XO (XI (XI
    (XO (XI (XO (XO (XO (XI (XO (XI (XO (XO (XO
    XH)))))))))))))))))) :: (((Npos (XO (XO (XO (XO (XI (XO (XI (XI (XO (XO
    (XI (XO (XI (XO (XO (XO XH))))))))))))))))), (Npos (XI (XO (XO (XI (XI
    (XO (XI (XI (XO (XO (XI (XO (XI (XO (XO (XO
    XH)))))))))))))))))) :: (((Npos (XO (XO (XO (XO (XI (XO (XI (XO (XO (XI
    (XI (XO (XI (XO (XO (XO XH))))))))))))))))), (Npos (XI (XO (XO (XI (XI
    (XO (XI (XO (XO (XI (XI (XO (XI (XO (XO (XO
    XH)))))))))))))))))) :: (((Npos (XO (XO (XO (XO (XO (XO (XI (XI (XO (XI
    (XI (XO (XI (XO (XO (XO XH))))))))))))))))), (Npos (XI (XO (XO (XI (XO
    (XO (XI (XI (XO (XI (XI (XO (XI (XO (XO (XO
    XH)))))))))))))))))) :: (((Npos (XO (XO (XO (XO (XI (XI (XO (XO (XI (XI
    (XI (XO (XI (XO (XO (XO XH))))))))))))))))), (Npos (XI (XO (XO (XI (XI
    (XI (XO (XO (XI (XI (XI (XO (XI (XO (XO (XO
    XH)))))))))))))))))) :: (((Npos (XO (XO (XO (XO (XO (XI (XI (XI (XO (XO
    (XO (XI (XI (XO (XO (XO XH))))))))))))))))), (Npos (XI (XO (XO (XI (XO
    (XI (XI (XI (XO (XO (XO (XI (XI (XO (XO (XO
    XH)))))))))))))))))) :: (((Npos (XO (XO (XO (XO (XI (XO (XI (XO (XI (XO
    (XO (XI (XI (XO (XO (XO XH))))))))))))))))), (Npos (XI (XO (XO (XI (XI
    (XO (XI (XO (XI (XO (XO (XI (XI (XO (XO (XO
    XH)))))))))))))))))) :: (((Npos (XO (XO (XO (XO (XI (XO (XI (XO (XO (XO
    (XI (XI (XI (XO (XO (XO XH))))))))))))))))), (Npos (XI (XO (XO (XI (XI
    (XO (XI (XO (XO (XO (XI (XI (XI (XO (XO (XO
    XH)))))))))))))))))) :: (((Npos (XO (XO (XO (XO (XI (XO (XI (XO (XI (XO
    (XI (XI (XI (XO (XO (XO XH))))))))))))))))), (Npos (XI (XO (XO (XI (XI
    (XO (XI (XO (XI (XO (XI (XI (XI (XO (XO (XO
    XH)))))))))))))))))) :: (((Npos (XO (XO (XO (XO (XO (XI (XO (XI (XI (XO
    (XI (XI (XI (XO (XO (XO XH))))))))))))))))), (Npos (XI (XO (XO (XI (XO
    (XI (XO (XI (XI (XO (XI (XI (XI (XO (XO (XO
    XH)))))))))))))))))) :: (((Npos (XO (XO (XO (XO (XI (XO (XI (XO (XI (XI
    (XI (XI (XI (XO (XO (XO XH))))))))))))))))), (Npos (XI (XO (XO (XI (XI
    (XO (XI (XO (XI (XI (XI (XI (XI (XO (XO (XO
    XH)))))))))))))))))) :: (((Npos (XO (XO (XO (XO (XO (XI (XI (XO (XO (XI
    (XO (XI (XO (XI (XI (XO XH))))))))))))))))), (Npos (XI (XO (XO (XI (XO
    (XI (XI (XO (XO (XI (XO (XI (XO (XI (XI (XO
    XH)))))))))))))))))) :: (((Npos (XO (XO (XO (XO (XO (XO (XI (XI (XO (XI
    (XO (XI (XO (XI (XI (XO XH))))))))))))))))), (Npos (XI (XO (XO (XI (XO
    (XO (XI (XI (XO (XI (XO (XI (XO (XI (XI (XO
    XH)))))))))))))))))) :: (((Npos (XO (XO (XO (XO (XI (XO (XI (XO (XI (XI
    (XO (XI (XO (XI (XI (XO XH))))))))))))))))), (Npos (XI (XO (XO (XI (XI
    (XO (XI (XO (XI (XI (XO (XI (XO (XI (XI (XO
    XH)))))))))))))))))) :: (((Npos (XO (XI (XI (XI (XO (XO (XI (XI (XI (XI
    (XI (XO (XI (XO (XI (XI XH))))))))))))))))), (Npos (XI (XI (XI (XI (XI
    (XI (XI (XI (XI (XI (XI (XO (XI (XO (XI (XI
    XH)))))))))))))))))) :: (((Npos (XO (XO (XO (XO (XO (XO (XI (XO (XI (XO
    (XO (XO (XO (XI (XI (XI XH))))))))))))))))), (Npos (XI (XO (XO (XI (XO
    (XO (XI (XO (XI (XO (XO (XO (XO (XI (XI (XI
    XH)))))))))))))))))) :: (((Npos (XO (XO (XO (XO (XI (XI (XI (XI (XO (XI
    (XO (XO (XO (XI (XI (XI XH))))))))))))))))), (Npos (XI (XO (XO (XI (XI
    (XI (XI (XI (XO (XI (XO (XO (XO (XI (XI (XI
    XH)))))))))))))))))) :: (((Npos (XO (XO (XO (XO (XI (XI (XI (XI (XO (XO
    (XI (XO (XO (XI (XI (XI XH))))))))))))))))), (Npos (XI (XO (XO (XI (XI
    (XI (XI (XI (XO (XO (XI (XO (XO (XI (XI (XI
    XH)))))))))))))))))) :: (((Npos (XO (XO (XO (XO (XI (XO (XI (XO (XI (XO
    (XO (XI (XO (XI (XI (XI XH))))))))))))))))), (Npos (XI (XO (XO (XI (XI
    (XO (XI (XO (XI (XO (XO (XI (XO (XI (XI (XI
    XH)))))))))))))))))) :: (((Npos (XO (XO (XO (XO (XI (XI (XI (XI (XI (XI
    (XO (XI (XI (XI (XI (XI XH))))))))))))))))), (Npos (XI (XO (XO (XI (XI
    (XI (XI (XI (XI (XI (XO (XI (XI (XI (XI (XI
    XH)))))))))))))))))) :: [])))))))))))))))))))))))))))))))))))))))))))))))))))))))))))))))

(** val pydigit_ranges : (n * n) list **)

let pydigit_ranges =
  ((Npos (XO (XO (XO (XO (XI XH)))))), (Npos (XI (XO (XO (XI (XI
    XH))))))) :: (((Npos (XO (XI (XO (XO (XI (XI (XO XH)))))))), (Npos (XI
    (XI (XO (XO (XI (XI (XO XH))))))))) :: (((Npos (XI (XO (XO (XI (XI (XI
    (XO XH)))))))), (Npos (XI (XO (XO (XI (XI (XI (XO XH))))))))) :: (((Npos
    (XO (XO (XO (XO (XO (XI (XI (XO (XO (XI XH))))))))))), (Npos (XI (XO (XO
    (XI (XO (XI (XI (XO (XO (XI XH)))))))))))) :: (((Npos (XO (XO (XO (XO (XI
    (XI (XI (XI (XO (XI XH))))))))))), (Npos (XI (XO (XO (XI (XI (XI (XI (XI
    (XO (XI XH)))))))))))) :: (((Npos (XO (XO (XO (XO (XO (XO (XI (XI (XI (XI
    XH))))))))))), (Npos (XI (XO (XO (XI (XO (XO (XI (XI (XI (XI
    XH)))))))))))) :: (((Npos (XO (XI (XI (XO (XO (XI (XI (XO (XI (XO (XO
    XH)))))))))))), (Npos (XI (XI (XI (XI (XO (XI (XI (XO (XI (XO (XO
    XH))))))))))))) :: (((Npos (XO (XI (XI (XO (XO (XI (XI (XI (XI (XO (XO
    XH)))))))))))), (Npos (XI (XI (XI (XI (XO (XI (XI (XI (XI (XO (XO
    XH))))))))))))) :: (((Npos (XO (XI (XI (XO (XO (XI (XI (XO (XO (XI (XO
    XH)))))))))))), (Npos (XI (XI (XI (XI (XO (XI (XI (XO (XO (XI (XO
    XH))))))))))))) :: (((Npos (XO (XI (XI (XO (XO (XI (XI (XI (XO (XI (XO
    XH)))))))))))), (Npos (XI (XI (XI (XI (XO (XI (XI (XI (XO (XI (XO
    XH))))))))))))) :: (((Npos (XO (XI (XI (XO (XO (XI (XI (XO (XI (XI (XO
    XH)))))))))))), (Npos (XI (XI (XI (XI (XO (XI (XI (XO (XI (XI (XO
    XH))))))))))))) :: (((Npos (XO (XI (XI (XO (XO (XI (XI (XI (XI (XI (XO
    XH)))))))))))), (Npos (XI (XI (XI (XI (XO (XI (XI (XI (XI (XI (XO
    XH))))))))))))) :: (((Npos (XO (XI (XI (XO (XO (XI (XI (XO (XO (XO (XI
    XH)))))))))))), (Npos (XI (XI (XI (XI (XO (XI (XI (XO (XO (XO (XI
    XH))))))))))))) :: (((Npos (XO (XI (XI (XO (XO (XI (XI (XI (XO (XO (XI
    XH)))))))))))), (Npos (XI (XI (XI (XI (XO (XI (XI (XI (XO (XO (XI
    XH))))))))))))) :: (((Npos (XO (XI (XI (XO (XO (XI (XI (XO (XI (XO (XI
    XH)))))))))))), (Npos (XI (XI (XI (XI (XO (XI (XI (XO (XI (XO (XI
    XH))))))))))))) :: (((Npos (XO (XI (XI (XO (XO (XI (XI (XI (XI (XO (XI
    XH)))))))))))), (Npos (XI (XI (XI (XI (XO (XI (XI (XI (XI (XO (XI
    XH))))))))))))) :: (((Npos (XO (XO (XO (XO (XI (XO (XI (XO (XO (XI (XI
    XH)))))))))))), (Npos (XI (XO (XO (XI (XI (XO (XI (XO (XO (XI (XI
    XH))))))))))))) :: (((Npos (XO (XO (XO (XO (XI (XO (XI (XI (XO (XI (XI
    XH)))))))))))), (Npos (XI (XO (XO (XI (XI (XO (XI (XI (XO (XI (XI
    XH))))))))))))) :: (((Npos (XO (XO (XO (XO (XO (XI (XO (XO (XI (XI (XI
    XH)))))))))))), (Npos (XI (XO (XO (XI (XO (XI (XO (XO (XI (XI (XI
    XH))))))))))))) :: (((Npos (XO (XO (XO (XO (XO (XO (XI (XO (XO (XO (XO
    (XO XH))))))))))))), (Npos (XI (XO (XO (XI (XO (XO (XI (XO (XO (XO (XO
    (XO XH)))))))))))))) :: (((Npos (XO (XO (XO (XO (XI (XO (XO (XI (XO (XO
    (XO (XO XH))))))))))))), (Npos (XI (XO (XO (XI (XI (XO (XO (XI (XO (XO
    (XO (XO XH)))))))))))))) :: (((Npos (XI (XO (XO (XI (XO (XI (XI (XO (XI
    (XI (XO (XO XH))))))))))))), (Npos (XI (XO (XO (XO (XI (XI (XI (XO (XI
    (XI (XO (XO XH)))))))))))))) :: (((Npos (XO (XO (XO (XO (XO (XI (XI (XI
    (XI (XI (XI (XO XH))))))))))))), (Npos (XI (XO (XO (XI (XO (XI (XI (XI
    (XI (XI (XI (XO XH)))))))))))))) :: (((Npos (XO (XO (XO (XO (XI (XO (XO
    (XO (XO (XO (XO (XI XH))))))))))))), (Npos (XI (XO (XO (XI (XI (XO (XO
    (XO (XO (XO (XO (XI XH)))))))))))))) :: (((Npos (XO (XI (XI (XO (XO (XO
    (XI (XO (XI (XO (XO (XI XH))))))))))))), (Npos (XI (XI (XI (XI (XO (XO
    (XI (XO (XI (XO (XO (XI XH)))))))))))))) :: (((Npos (XO (XO (XO (XO (XI
    (XO (XI (XI (XI (XO (XO (XI XH))))))))))))), (Npos (XO (XI (XO (XI (XI
    (XO (XI (XI (XI (XO (XO (XI XH)))))))))))))) :: (((Npos (XO (XO (XO (XO
    (XO (XO (XO (XI (XO (XI (XO (XI XH))))))))))))), (Npos (XI (XO (XO (XI
    (XO (XO (XO (XI (XO (XI (XO (XI XH)))))))))))))) :: (((Npos (XO (XO (XO
    (XO (XI (XO (XO (XI (XO (XI (XO (XI XH))))))))))))), (Npos (XI (XO (XO
    (XI (XI (XO (XO (XI (XO (XI (XO (XI XH)))))))))))))) :: (((Npos (XO (XO
    (XO (XO (XI (XO (XI (XO (XI (XI (XO (XI XH))))))))))))), (Npos (XI (XO
    (XO (XI (XI (XO (XI (XO (XI (XI (XO (XI XH)))))))))))))) :: (((Npos (XO
    (XO (XO (XO (XI (XI (XO (XI (XI (XI (XO (XI XH))))))))))))), (Npos (XI
    (XO (XO (XI (XI (XI (XO (XI (XI (XI (XO (XI XH)))))))))))))) :: (((Npos
    (XO (XO (XO (XO (XO (XO (XI (XO (XO (XO (XI (XI XH))))))))))))), (Npos
    (XI (XO (XO (XI (XO (XO (XI (XO (XO (XO (XI (XI
    XH)))))))))))))) :: (((Npos (XO (XO (XO (XO (XI (XO (XI (XO (XO (XO (XI
    (XI XH))))))))))))), (Npos (XI (XO (XO (XI (XI (XO (XI (XO (XO (XO (XI
    (XI XH)))))))))))))) :: (((Npos (XO (XO (XO (XO (XI (XI (XI (XO (XO (XO
    (XO (XO (XO XH)))))))))))))), (Npos (XO (XO (XO (XO (XI (XI (XI (XO (XO
    (XO (XO (XO (XO XH))))))))))))))) :: (((Npos (XO (XO (XI (XO (XI (XI (XI
    (XO (XO (XO (XO (XO (XO XH)))))))))))))), (Npos (XI (XO (XO (XI (XI (XI
    (XI (XO (XO (XO (XO (XO (XO XH))))))))))))))) :: (((Npos (XO (XO (XO (XO
    (XO (XO (XO (XI (XO (XO (XO (XO (XO XH)))))))))))))), (Npos (XI (XO (XO
    (XI (XO (XO (XO (XI (XO (XO (XO (XO (XO XH))))))))))))))) :: (((Npos (XO
    (XO (XO (XO (XO (XI (XI (XO (XO (XO (XI (XO (XO XH)))))))))))))), (Npos
    (XO (XO (XO (XI (XO (XI (XI (XO (XO (XO (XI (XO (XO
    XH))))))))))))))) :: (((Npos (XO (XO (XI (XO (XI (XI (XI (XO (XO (XO (XI
    (XO (XO XH)))))))))))))), (Npos (XO (XO (XI (XI (XI (XI (XI (XO (XO (XO
    (XI (XO (XO XH))))))))))))))) :: (((Npos (XO (XO (XO (XI (XO (XO (XO (XI
    (XO (XO (XI (XO (XO XH)))))))))))))), (Npos (XO (XO (XO (XO (XI (XO (XO
    (XI (XO (XO (XI (XO (XO XH))))))))))))))) :: (((Npos (XO (XI (XO (XI (XO
    (XI (XI (XI (XO (XO (XI (XO (XO XH)))))))))))))), (Npos (XO (XI (XO (XI
    (XO (XI (XI (XI (XO (XO (XI (XO (XO XH))))))))))))))) :: (((Npos (XI (XO
    (XI (XO (XI (XI (XI (XI (XO (XO (XI (XO (XO XH)))))))))))))), (Npos (XI
    (XO (XI (XI (XI (XI (XI (XI (XO (XO (XI (XO (XO
    XH))))))))))))))) :: (((Npos (XI (XI (XI (XI (XI (XI (XI (XI (XO (XO (XI
    (XO (XO XH)))))))))))))), (Npos (XI (XI (XI (XI (XI (XI (XI (XI (XO (XO
    (XI (XO (XO XH))))))))))))))) :: (((Npos (XO (XI (XI (XO (XI (XI (XI (XO
    (XI (XI (XI (XO (XO XH)))))))))))))), (Npos (XO (XI (XI (XI (XI (XI (XI
    (XO (XI (XI (XI (XO (XO XH))))))))))))))) :: (((Npos (XO (XO (XO (XO (XO
    (XO (XO (XI (XI (XI (XI (XO (XO XH)))))))))))))), (Npos (XO (XO (XO (XI
    (XO (XO (XO (XI (XI (XI (XI (XO (XO XH))))))))))))))) :: (((Npos (XO (XI
    (XO (XI (XO (XO (XO (XI (XI (XI (XI (XO (XO XH)))))))))))))), (Npos (XO
    (XI (XO (XO (XI (XO (XO (XI (XI (XI (XI (XO (XO
    XH))))))))))))))) :: (((Npos (XO (XO (XO (XO (XO (XI (XO (XO (XO (XI (XI
    (XO (XO (XI (XO XH)))))))))))))))), (Npos (XI (XO (XO (XI (XO (XI (XO (XO
    (XO (XI (XI (XO (XO (XI (XO XH))))))))))))))))) :: (((Npos (XO (XO (XO
    (XO (XI (XO (XI (XI (XO (XO (XO (XI (XO (XI (XO XH)))))))))))))))), (Npos
    (XI (XO (XO (XI (XI (XO (XI (XI (XO (XO (XO (XI (XO (XI (XO
    XH))))))))))))))))) :: (((Npos (XO (XO (XO (XO (XO (XO (XO (XO (XI (XO
    (XO (XI (XO (XI (XO XH)))))))))))))))), (Npos (XI (XO (XO (XI (XO (XO (XO
    (XO (XI (XO (XO (XI (XO (XI (XO XH))))))))))))))))) :: (((Npos (XO (XO
    (XO (XO (XI (XO (XI (XI (XI (XO (XO (XI (XO (XI (XO XH)))))))))))))))),
    (Npos (XI (XO (XO (XI (XI (XO (XI (XI (XI (XO (XO (XI (XO (XI (XO
    XH))))))))))))))))) :: (((Npos (XO (XO (XO (XO (XI (XI (XI (XI (XI (XO
    (XO (XI (XO (XI (XO XH)))))))))))))))), (Npos (XI (XO (XO (XI (XI (XI (XI
    (XI (XI (XO (XO (XI (XO (XI (XO XH))))))))))))))))) :: (((Npos (XO (XO
    (XO (XO (XI (XO (XI (XO (XO (XI (XO (XI (XO (XI (XO XH)))))))))))))))),
    (Npos (XI (XO (XO (XI (XI (XO (XI (XO (XO (XI (XO (XI (XO (XI (XO
    XH))))))))))))))))) :: (((Npos (XO (XO (XO (XO (XI (XI (XI (XI (XI (XI
    (XO (XI (XO (XI (XO XH)))))))))))))))), (Npos (XI (XO (XO (XI (XI (XI (XI
    (XI (XI (XI (XO (XI (XO (XI (XO XH))))))))))))))))) :: (((Npos (XO (XO
    (XO (XO (XI (XO (XO (XO (XI (XI (XI (XI (XI (XI (XI XH)))))))))))))))),
    (Npos (XI (XO (XO (XI (XI (XO (XO (XO (XI (XI (XI (XI (XI (XI (XI
    XH))))))))))))))))) :: (((Npos (XO (XO (XO (XO (XO (XI (XO (XI (XO (XO
    (XI (XO (XO (XO (XO (XO XH))))))))))))))))), (Npos (XI (XO (XO (XI (XO
    (XI (XO (XI (XO (XO (XI (XO (XO (XO (XO (XO
    XH)))))))))))))))))) :: (((Npos (XO (XO (XO (XO (XO (XO (XI (XO (XO (XI
    (XO (XI (XO (XO (XO (XO XH))))))))))))))))), (Npos (XI (XI (XO (XO (XO
    (XO (XI (XO (XO (XI (XO (XI (XO (XO (XO (XO
    XH)))))))))))))))))) :: (((Npos (XO (XO (XO (XO (XI (XI (XO (XO (XI (XO
    (XI (XI (XO (XO (XO (XO XH))))))))))))))))), (Npos (XI (XO (XO (XI (XI
    (XI (XO (XO (XI (XO (XI (XI (XO (XO (XO (XO
    XH)))))))))))))))))) :: (((Npos (XO (XO (XO (XO (XO (XI (XI (XO (XO (XI
    (XI (XI (XO (XO (XO (XO XH))))))))))))))))), (Npos (XO (XO (XO (XI (XO
    (XI (XI (XO (XO (XI (XI (XI (XO (XO (XO (XO
    XH)))))))))))))))))) :: (((Npos (XO (XI (XO (XO (XI (XO (XI (XO (XO (XO
    (XO (XO (XI (XO (XO (XO XH))))))))))))))))), (Npos (XO (XI (XO (XI (XI
    (XO (XI (XO (XO (XO (XO (XO (XI (XO (XO (XO
    XH)))))))))))))))))) :: (((Npos (XO (XI (XI (XO (XO (XI (XI (XO (XO (XO
    (XO (XO (XI (XO (XO (XO XH))))))))))))))))), (Npos (XI (XI (XI (XI (XO
    (XI (XI (XO (XO (XO (XO (XO (XI (XO (XO (XO
    XH)))))))))))))))))) :: (((Npos (XO (XO (XO (XO (XI (XI (XI (XI (XO (XO
    (XO (XO (XI (XO (XO (XO XH))))))))))))))))), (Npos (XI (XO (XO (XI (XI
    (XI (XI (XI (XO (XO (XO (XO (XI (XO (XO (XO
    XH)))))))))))))))))) :: (((Npos (XO (XI (XI (XO (XI (XI (XO (XO (XI (XO
    (XO (XO (XI (XO (XO (XO XH))))))))))))))))), (Npos (XI (XI (XI (XI (XI
    (XI (XO (XO (XI (XO (XO (XO (XI (XO (XO (XO
    XH)))))))))))))))))) :: (((Npos (XO (XO (XO (XO (XI (XO (XI (XI (XI (XO
    (XO (XO (XI (XO (XO (XO XH))))))))))))))))), (Npos (XI (XO (XO (XI (XI
    (XO (XI (XI (XI (XO (XO (XO (XI (XO (XO (XO
    XH)))))))))))))))))) :: (((Npos (XO (XO (XO (XO (XI (XI (XI (XI (XO (XI
    (XO (XO (XI (XO (XO (XO XH))))))))))))))))), (Npos (XI (XO (XO (XI (XI
    (XI (XI (XI (XO (XI (XO (XO (XI (XO (XO (XO
    XH)))))))))))))))))) :: (((Npos (XO (XO (XO (XO (XI (XO (XI (XO (XO (XO
    (XI (XO (XI (XO (XO (XO XH))))))))))))))))), (Npos (XI (XO (XO (XI (XI
    (XO (XI (XO (XO (XO (XI (XO (XI (XO (XO (XO
    XH)))))))))))))))))) :: (((Npos (XO (XO (XO (XO (XI (XO (XI (XI (XO (XO
    (XI (XO (XI (XO (XO (XO XH))))))))))))))))), (Npos (XI (XO (XO (XI (XI
    (XO (XI (XI (XO (XO (XI (XO (XI (XO (XO (XO
    XH)))))))))))))))))) :: (((Npos (XO (XO (XO (XO (XI (XO (XI (XO (XO (XI
    (XI (XO (XI (XO (XO (XO XH))))))))))))))))), (Npos (XI (XO (XO (XI (XI
    (XO (XI (XO (XO (XI (XI (XO (XI (XO (XO (XO
    XH)))))))))))))))))) :: (((Npos (XO (XO (XO (XO (XO (XO (XI (XI (XO (XI
    (XI (XO (XI (XO (XO (XO XH))))))))))))))))), (Npos (XI (XO (XO (XI (XO
    (XO (XI (XI (XO (XI (XI (XO (XI (XO (XO (XO
    XH)))))))))))))))))) :: (((Npos (XO (XO (XO (XO (XI (XI (XO (XO (XI (XI
    (XI (XO (XI (XO (XO (XO XH))))))))))))))))), (Npos (XI (XO (XO (XI (XI
    (XI (XO (XO (XI (XI (XI (XO (XI (XO (XO (XO
    XH)))))))))))))))))) :: (((Npos (XO (XO (XO (XO (XO (XI (XI (XI (XO (XO
    (XO (XI (XI (XO (XO (XO XH))))))))))))))))), (Npos (XI (XO (XO (XI (XO
    (XI (XI (XI (XO (XO (XO (XI (XI (XO (XO (XO
    XH)))))))))))))))))) :: (((Npos (XO (XO (XO (XO (XI (XO (XI (XO (XI (XO
    (XO (XI (XI (XO (XO (XO XH))))))))))))))))), (Npos (XI (XO (XO (XI (XI
    (XO (XI (XO (XI (XO (XO (XI (XI (XO (XO (XO
    XH)))))))))))))))))) :: (((Npos (XO (XO (XO (XO (XI (XO (XI (XO (XO (XO
    (XI (XI (XI (XO (XO (XO XH))))))))))))))))), (Npos (XI (XO (XO (XI (XI
    (XO (XI (XO (XO (XO (XI (XI (XI (XO (XO (XO
    XH)))))))))))))))))) :: (((Npos (XO (XO (XO (XO (XI (XO (XI (XO (XI (XO
    (XI (XI (XI (XO (XO (XO XH))))))))))))))))), (Npos (XI (XO (XO (XI (XI
    (XO (XI (XO (XI (XO (XI (XI (XI (XO (XO (XO
    XH)))))))))))))))))) :: (((Npos (XO (XO (XO (XO (XO (XI (XO (XI (XI (XO
    (XI (XI (XI (XO (XO (XO XH))))))))))))))))), (Npos (XI (XO (XO (XI (XO
    (XI (XO (XI (XI (XO (XI (XI (XI (XO (XO (XO
    XH)))))))))))))))))) :: (((Npos (XO (XO (XO (XO (XI (XO (XI (XO (XI (XI
    (XI (XI (XI (XO (XO (XO XH))))))))))))))))), (Npos (XI (XO (XO (XI (XI
    (XO (XI (XO (XI (XI (XI (XI (XI (XO (XO (XO
    XH)))))))))))))))))) :: (((Npos (XO (XO (XO (XO (XO (XI (XI (XO (XO (XI
    (XO (XI (XO (XI (XI (XO XH))))))))))))))))), (Npos (XI (XO (XO (XI (XO
    (XI (XI (XO (XO (XI (XO (XI (XO (XI (XI (XO
    XH)))))))))))))))))) :: (((Npos (XO (XO (XO (XO (XO (XO (XI (XI (XO (XI
    (XO (XI (XO (XI (XI (XO XH))))))))))))))))), (Npos (XI (XO (XO (XI (XO
    (XO (XI (XI (XO (XI (XO (XI (XO (XI (XI (XO
    XH)))))))))))))))))) :: (((Npos (XO (XO (XO (XO (XI (XO (XI (XO (XI (XI
    (XO (XI (XO (XI (XI (XO XH))))))))))))))))), (Npos (XI (XO (XO (XI (XI
    (XO (XI (XO (XI (XI (XO (XI (XO (XI (XI (XO
    XH)))))))))))))))))) :: (((Npos (XO (XI (XI (XI (XO (XO (XI (XI (XI (XI
    (XI (XO (XI (XO (XI (XI XH))))))))))))))))), (Npos (XI (XI (XI (XI (XI
    (XI (XI (XI (XI (XI (XI (XO (XI (XO (XI (XI
    XH)))))))))))))))))) :: (((Npos (XO (XO (XO (XO (XO (XO (XI (XO (XI (XO
    (XO (XO (XO (XI (XI (XI XH))))))))))))))))), (Npos (XI (XO (XO (XI (XO
    (XO (XI (XO (XI (XO (XO (XO (XO (XI (XI (XI
    XH)))))))))))))))))) :: (((Npos (XO (XO (XO (XO (XI (XI (XI (XI (XO (XI
    (XO (XO (XO (XI (XI (XI XH))))))))))))))))), (Npos (XI (XO (XO (XI (XI
    (XI (XI (XI (XO (XI (XO (XO (XO (XI (XI (XI
    XH)))))))))))))))))) :: (((Npos (XO (XO (XO (XO (XI (XI (XI (XI (XO (XO
    (XI (XO (XO (XI (XI (XI XH))))))))))))))))), (Npos (XI (XO (XO (XI (XI
    (XI (XI (XI (XO (XO (XI (XO (XO (XI (XI (XI
    XH)))))))))))))))))) :: (((Npos (XO (XO (XO (XO (XI (XO (XI (XO (XI (XO
    (XO (XI (XO (XI (XI (XI XH))))))))))))))))), (Npos (XI (XO (XO (XI (XI
    (XO (XI (XO (XI (XO (XO (XI (XO (XI (XI (XI
    XH)))))))))))))))))) :: (((Npos (XO (XO (XO (XO (XO (XO (XO (XO (XI (XO
    (XO (XO (XI (XI (XI (XI XH))))))))))))))))), (Npos (XO (XI (XO (XI (XO
    (XO (XO (XO (XI (XO (XO (XO (XI (XI (XI (XI
    XH)))))))))))))))))) :: (((Npos (XO (XO (XO (XO (XI (XI (XI (XI (XI (XI
    (XO (XI (XI (XI (XI (XI XH))))))))))))))))), (Npos (XI (XO (XO (XI (XI
    (XI (XI (XI (XI (XI (XO (XI (XI (XI (XI (XI
    XH)))))))))))))))))) :: []))))))))))))))))))))))))))))))))))))))))))))))))))))))))))))))))))))))))))))))))))

type char = n

type str = char list

(** val in_ranges : (n * n) list -> n -> bool **)

let rec in_ranges rs c =
  match rs with
  | [] -> false
  | p :: rs' ->
    let (a, b) = p in (||) ((&&) (N.leb a c) (N.leb c b)) (in_ranges rs' c)

(** val is_space : char -> bool **)

let is_space c =
  (||)
    ((||)
      ((||)
        ((||)
          ((||)
            ((||)
              ((||)
                ((||)
                  ((||)
                    ((||)
                      ((&&) (N.leb (Npos (XI (XO (XO XH)))) c)
                        (N.leb c (Npos (XI (XO (XI XH))))))
                      ((&&) (N.leb (Npos (XO (XO (XI (XI XH))))) c)
                        (N.leb c (Npos (XO (XO (XO (XO (XO XH)))))))))
                    (N.eqb c (Npos (XI (XO (XI (XO (XO (XO (XO XH))))))))))
                  (N.eqb c (Npos (XO (XO (XO (XO (XO (XI (XO XH))))))))))
                (N.eqb c (Npos (XO (XO (XO (XO (XO (XO (XO (XI (XO (XI (XI
                  (XO XH)))))))))))))))
              ((&&)
                (N.leb (Npos (XO (XO (XO (XO (XO (XO (XO (XO (XO (XO (XO (XO
                  (XO XH)))))))))))))) c)
                (N.leb c (Npos (XO (XI (XO (XI (XO (XO (XO (XO (XO (XO (XO
                  (XO (XO XH)))))))))))))))))
            (N.eqb c (Npos (XO (XO (XO (XI (XO (XI (XO (XO (XO (XO (XO (XO
              (XO XH))))))))))))))))
          (N.eqb c (Npos (XI (XO (XO (XI (XO (XI (XO (XO (XO (XO (XO (XO (XO
            XH))))))))))))))))
        (N.eqb c (Npos (XI (XI (XI (XI (XO (XI (XO (XO (XO (XO (XO (XO (XO
          XH))))))))))))))))
      (N.eqb c (Npos (XI (XI (XI (XI (XI (XO (XI (XO (XO (XO (XO (XO (XO
        XH))))))))))))))))
    (N.eqb c (Npos (XO (XO (XO (XO (XO (XO (XO (XO (XO (XO (XO (XO (XI
      XH)))))))))))))))

(** val is_linebreak : char -> bool **)

let is_linebreak c =
  (||)
    ((||)
      ((||)
        ((||)
          ((&&) (N.leb (Npos (XO (XI (XO XH)))) c)
            (N.leb c (Npos (XI (XO (XI XH))))))
          ((&&) (N.leb (Npos (XO (XO (XI (XI XH))))) c)
            (N.leb c (Npos (XO (XI (XI (XI XH))))))))
        (N.eqb c (Npos (XI (XO (XI (XO (XO (XO (XO XH))))))))))
      (N.eqb c (Npos (XO (XO (XO (XI (XO (XI (XO (XO (XO (XO (XO (XO (XO
        XH))))))))))))))))
    (N.eqb c (Npos (XI (XO (XO (XI (XO (XI (XO (XO (XO (XO (XO (XO (XO
      XH)))))))))))))))

(** val is_nd : char -> bool **)

let is_nd c =
  in_ranges nd_ranges c

(** val is_pydigit : char -> bool **)

let is_pydigit c =
  in_ranges pydigit_ranges c

(** val is_ascii_upper : char -> bool **)

let is_ascii_upper c =
  (&&) (N.leb (Npos (XI (XO (XO (XO (XO (XO XH))))))) c)
    (N.leb c (Npos (XO (XI (XO (XI (XI (XO XH))))))))

(** val str_eqb : str -> str -> bool **)

let rec str_eqb a b =
  match a with
  | [] -> (match b with
           | [] -> true
           | _ :: _ -> false)
  | x :: a' ->
    (match b with
     | [] -> false
     | y :: b' -> (&&) (N.eqb x y) (str_eqb a' b'))

(** val drop_while : (char -> bool) -> str -> str **)

let rec drop_while p s = match s with
| [] -> []
| c :: s' -> if p c then drop_while p s' else s

(** val lstrip_by : (char -> bool) -> str -> str **)

let lstrip_by =
  drop_while

(** val rstrip_by : (char -> bool) -> str -> str **)

let rstrip_by p s =
  rev (drop_while p (rev s))

(** val strip_by : (char -> bool) -> str -> str **)

let strip_by p s =
  rstrip_by p (lstrip_by p s)

(** val lstrip : str -> str **)

let lstrip =
  lstrip_by is_space

(** val rstrip : str -> str **)

let rstrip =
  rstrip_by is_space

(** val strip : str -> str **)

let strip =
  strip_by is_space

(** val all_space : str -> bool **)

let all_space s =
  forallb is_space s

(** val startswith : str -> str -> bool **)

let rec startswith p s =
  match p with
  | [] -> true
  | x :: p' ->
    (match s with
     | [] -> false
     | y :: s' -> (&&) (N.eqb x y) (startswith p' s'))

(** val partition_str : str -> str -> (str * bool) * str **)

let rec partition_str sep s = match s with
| [] -> (([], false), [])
| x :: s' ->
  if startswith sep s
  then (([], true), (skipn (length sep) s))
  else let (p, b) = partition_str sep s' in
       let (a, f) = p in (((x :: a), f), b)

(** val rpartition_str : str -> str -> (str * bool) * str **)

let rpartition_str sep s =
  let (p, b) = partition_str (rev sep) (rev s) in
  let (a, f) = p in if f then (((rev b), true), (rev a)) else (([], false), s)

(** val split_char_aux : char -> str -> str -> str list **)

let rec split_char_aux c cur = function
| [] -> (rev cur) :: []
| x :: s' ->
  if N.eqb x c
  then (rev cur) :: (split_char_aux c [] s')
  else split_char_aux c (x :: cur) s'

(** val split_char : char -> str -> str list **)

let split_char c s =
  split_char_aux c [] s

(** val split_ws_aux : str -> str -> str list **)

let rec split_ws_aux cur = function
| [] -> (match cur with
         | [] -> []
         | _ :: _ -> (rev cur) :: [])
| x :: s' ->
  if is_space x
  then (match cur with
        | [] -> split_ws_aux [] s'
        | _ :: _ -> (rev cur) :: (split_ws_aux [] s'))
  else split_ws_aux (x :: cur) s'

(** val split_ws : str -> str list **)

let split_ws s =
  split_ws_aux [] s

(** val splitlines_aux : (char -> bool) -> bool -> str -> str -> str list **)

let rec splitlines_aux lb skip_lf cur = function
| [] -> (match cur with
         | [] -> []
         | _ :: _ -> (rev cur) :: [])
| c :: s' ->
  if (&&) skip_lf (N.eqb c (Npos (XO (XI (XO XH)))))
  then splitlines_aux lb false cur s'
  else if lb c
       then (rev cur) :: (splitlines_aux lb
                           (N.eqb c (Npos (XI (XO (XI XH))))) [] s')
       else splitlines_aux lb false (c :: cur) s'

(** val splitlines_by : (char -> bool) -> str -> str list **)

let splitlines_by lb s =
  splitlines_aux lb false [] s

(** val splitlines : str -> str list **)

let splitlines =
  splitlines_by is_linebreak

(** val splitlines_keep_aux : (char -> bool) -> str -> str -> str list **)

let rec splitlines_keep_aux lb cur = function
| [] -> (match cur with
         | [] -> []
         | _ :: _ -> (rev cur) :: [])
| c :: s' ->
  if lb c
  then (match c with
        | N0 -> (rev (c :: cur)) :: (splitlines_keep_aux lb [] s')
        | Npos p ->
          (match p with
           | XI p0 ->
             (match p0 with
              | XO p1 ->
                (match p1 with
                 | XI p2 ->
                   (match p2 with
                    | XH ->
                      (match s' with
                       | [] ->
                         (rev (c :: cur)) :: (splitlines_keep_aux lb [] s')
                       | c0 :: s'' ->
                         (match c0 with
                          | N0 ->
                            (rev (c :: cur)) :: (splitlines_keep_aux lb [] s')
                          | Npos p3 ->
                            (match p3 with
                             | XO p4 ->
                               (match p4 with
                                | XI p5 ->
                                  (match p5 with
                                   | XO p6 ->
                                     (match p6 with
                                      | XH ->
                                        (rev ((Npos (XO (XI (XO
                                          XH)))) :: ((Npos (XI (XO (XI
                                          XH)))) :: cur))) :: (splitlines_keep_aux
                                                                lb [] s'')
                                      | _ ->
                                        (rev (c :: cur)) :: (splitlines_keep_aux
                                                              lb [] s'))
                                   | _ ->
                                     (rev (c :: cur)) :: (splitlines_keep_aux
                                                           lb [] s'))
                                | _ ->
                                  (rev (c :: cur)) :: (splitlines_keep_aux lb
                                                        [] s'))
                             | _ ->
                               (rev (c :: cur)) :: (splitlines_keep_aux lb []
                                                     s'))))
                    | _ -> (rev (c :: cur)) :: (splitlines_keep_aux lb [] s'))
                 | _ -> (rev (c :: cur)) :: (splitlines_keep_aux lb [] s'))
              | _ -> (rev (c :: cur)) :: (splitlines_keep_aux lb [] s'))
           | _ -> (rev (c :: cur)) :: (splitlines_keep_aux lb [] s')))
  else splitlines_keep_aux lb (c :: cur) s'

(** val splitlines_keep_by : (char -> bool) -> str -> str list **)

let splitlines_keep_by lb s =
  splitlines_keep_aux lb [] s

(** val join : str -> str list -> str **)

let rec join sep = function
| [] -> []
| x :: l' -> (match l' with
              | [] -> x
              | _ :: _ -> app x (app sep (join sep l')))

(** val lower_ascii_char : char -> char **)

let lower_ascii_char c =
  if is_ascii_upper c then N.add c (Npos (XO (XO (XO (XO (XO XH)))))) else c

(** val lower_name : str -> str **)

let rec lower_name = function
| [] -> []
| c :: s' ->
  if N.eqb c (Npos (XO (XO (XO (XO (XI (XI (XO (XO XH)))))))))
  then (Npos (XI (XO (XO (XI (XO (XI XH))))))) :: ((Npos (XI (XI (XI (XO (XO
         (XO (XO (XO (XI XH)))))))))) :: (lower_name s'))
  else if N.eqb c (Npos (XO (XI (XO (XI (XO (XI (XO (XO (XI (XO (XO (XO (XO
            XH))))))))))))))
       then (Npos (XI (XI (XO (XI (XO (XI XH))))))) :: (lower_name s')
       else (lower_ascii_char c) :: (lower_name s')

(** val n_to_dec_fuel : nat -> n -> str -> str **)

let rec n_to_dec_fuel fuel n0 acc =
  match fuel with
  | O -> acc
  | S f ->
    let d =
      N.add (Npos (XO (XO (XO (XO (XI XH))))))
        (N.modulo n0 (Npos (XO (XI (XO XH)))))
    in
    let q = N.div n0 (Npos (XO (XI (XO XH)))) in
    if N.eqb q N0 then d :: acc else n_to_dec_fuel f q (d :: acc)

(** val n_to_dec : n -> str **)

let n_to_dec n0 =
  n_to_dec_fuel (S (N.to_nat (N.log2 n0))) n0 []

(** val lit : string -> str **)

let rec lit = function
| EmptyString -> []
| String (a, s') -> (n_of_ascii a) :: (lit s')

type val0 =
| VStr of str
| VInt of z
| VNone
| VBool of bool
| VList of val0 list
| VExn of exn

(** val show_Z : z -> str **)

let show_Z = function
| Z0 -> (Npos (XO (XO (XO (XO (XI XH)))))) :: []
| Zpos p -> n_to_dec (Npos p)
| Zneg p -> (Npos (XI (XO (XI (XI (XO XH)))))) :: (n_to_dec (Npos p))

(** val show_exn : exn -> str **)

let show_exn = function
| ValueError ->
  lit (String ((Ascii (false, true, true, false, true, false, true, false)),
    (String ((Ascii (true, false, false, false, false, true, true, false)),
    (String ((Ascii (false, false, true, true, false, true, true, false)),
    (String ((Ascii (true, false, true, false, true, true, true, false)),
    (String ((Ascii (true, false, true, false, false, true, true, false)),
    (String ((Ascii (true, false, true, false, false, false, true, false)),
    (String ((Ascii (false, true, false, false, true, true, true, false)),
    (String ((Ascii (false, true, false, false, true, true, true, false)),
    (String ((Ascii (true, true, true, true, false, true, true, false)),
    (String ((Ascii (false, true, false, false, true, true, true, false)),
    EmptyString))))))))))))))))))))
| AssertionError ->
  lit (String ((Ascii (true, false, false, false, false, false, true,
    false)), (String ((Ascii (true, true, false, false, true, true, true,
    false)), (String ((Ascii (true, true, false, false, true, true, true,
    false)), (String ((Ascii (true, false, true, false, false, true, true,
    false)), (String ((Ascii (false, true, false, false, true, true, true,
    false)), (String ((Ascii (false, false, true, false, true, true, true,
    false)), (String ((Ascii (true, false, false, true, false, true, true,
    false)), (String ((Ascii (true, true, true, true, false, true, true,
    false)), (String ((Ascii (false, true, true, true, false, true, true,
    false)), (String ((Ascii (true, false, true, false, false, false, true,
    false)), (String ((Ascii (false, true, false, false, true, true, true,
    false)), (String ((Ascii (false, true, false, false, true, true, true,
    false)), (String ((Ascii (true, true, true, true, false, true, true,
    false)), (String ((Ascii (false, true, false, false, true, true, true,
    false)), EmptyString))))))))))))))))))))))))))))
| AttributeError ->
  lit (String ((Ascii (true, false, false, false, false, false, true,
    false)), (String ((Ascii (false, false, true, false, true, true, true,
    false)), (String ((Ascii (false, false, true, false, true, true, true,
    false)), (String ((Ascii (false, true, false, false, true, true, true,
    false)), (String ((Ascii (true, false, false, true, false, true, true,
    false)), (String ((Ascii (false, true, false, false, false, true, true,
    false)), (String ((Ascii (true, false, true, false, true, true, true,
    false)), (String ((Ascii (false, false, true, false, true, true, true,
    false)), (String ((Ascii (true, false, true, false, false, true, true,
    false)), (String ((Ascii (true, false, true, false, false, false, true,
    false)), (String ((Ascii (false, true, false, false, true, true, true,
    false)), (String ((Ascii (false, true, false, false, true, true, true,
    false)), (String ((Ascii (true, true, true, true, false, true, true,
    false)), (String ((Ascii (false, true, false, false, true, true, true,
    false)), EmptyString))))))))))))))))))))))))))))
| TypeError ->
  lit (String ((Ascii (false, false, true, false, true, false, true, false)),
    (String ((Ascii (true, false, false, true, true, true, true, false)),
    (String ((Ascii (false, false, false, false, true, true, true, false)),
    (String ((Ascii (true, false, true, false, false, true, true, false)),
    (String ((Ascii (true, false, true, false, false, false, true, false)),
    (String ((Ascii (false, true, false, false, true, true, true, false)),
    (String ((Ascii (false, true, false, false, true, true, true, false)),
    (String ((Ascii (true, true, true, true, false, true, true, false)),
    (String ((Ascii (false, true, false, false, true, true, true, false)),
    EmptyString))))))))))))))))))
| KeyError ->
  lit (String ((Ascii (true, true, false, true, false, false, true, false)),
    (String ((Ascii (true, false, true, false, false, true, true, false)),
    (String ((Ascii (true, false, false, true, true, true, true, false)),
    (String ((Ascii (true, false, true, false, false, false, true, false)),
    (String ((Ascii (false, true, false, false, true, true, true, false)),
    (String ((Ascii (false, true, false, false, true, true, true, false)),
    (String ((Ascii (true, true, true, true, false, true, true, false)),
    (String ((Ascii (false, true, false, false, true, true, true, false)),
    EmptyString))))))))))))))))
| IndexError ->
  lit (String ((Ascii (true, false, false, true, false, false, true, false)),
    (String ((Ascii (false, true, true, true, false, true, true, false)),
    (String ((Ascii (false, false, true, false, false, true, true, false)),
    (String ((Ascii (true, false, true, false, false, true, true, false)),
    (String ((Ascii (false, false, false, true, true, true, true, false)),
    (String ((Ascii (true, false, true, false, false, false, true, false)),
    (String ((Ascii (false, true, false, false, true, true, true, false)),
    (String ((Ascii (false, true, false, false, true, true, true, false)),
    (String ((Ascii (true, true, true, true, false, true, true, false)),
    (String ((Ascii (false, true, false, false, true, true, true, false)),
    EmptyString))))))))))))))))))))
| NotImplementedError ->
  lit (String ((Ascii (false, true, true, true, false, false, true, false)),
    (String ((Ascii (true, true, true, true, false, true, true, false)),
    (String ((Ascii (false, false, true, false, true, true, true, false)),
    (String ((Ascii (true, false, false, true, false, false, true, false)),
    (String ((Ascii (true, false, true, true, false, true, true, false)),
    (String ((Ascii (false, false, false, false, true, true, true, false)),
    (String ((Ascii (false, false, true, true, false, true, true, false)),
    (String ((Ascii (true, false, true, false, false, true, true, false)),
    (String ((Ascii (true, false, true, true, false, true, true, false)),
    (String ((Ascii (true, false, true, false, false, true, true, false)),
    (String ((Ascii (false, true, true, true, false, true, true, false)),
    (String ((Ascii (false, false, true, false, true, true, true, false)),
    (String ((Ascii (true, false, true, false, false, true, true, false)),
    (String ((Ascii (false, false, true, false, false, true, true, false)),
    (String ((Ascii (true, false, true, false, false, false, true, false)),
    (String ((Ascii (false, true, false, false, true, true, true, false)),
    (String ((Ascii (false, true, false, false, true, true, true, false)),
    (String ((Ascii (true, true, true, true, false, true, true, false)),
    (String ((Ascii (false, true, false, false, true, true, true, false)),
    EmptyString))))))))))))))))))))))))))))))))))))))
| PyException ->
  lit (String ((Ascii (true, false, true, false, false, false, true, false)),
    (String ((Ascii (false, false, false, true, true, true, true, false)),
    (String ((Ascii (true, true, false, false, false, true, true, false)),
    (String ((Ascii (true, false, true, false, false, true, true, false)),
    (String ((Ascii (false, false, false, false, true, true, true, false)),
    (String ((Ascii (false, false, true, false, true, true, true, false)),
    (String ((Ascii (true, false, false, true, false, true, true, false)),
    (String ((Ascii (true, true, true, true, false, true, true, false)),
    (String ((Ascii (false, true, true, true, false, true, true, false)),
    EmptyString))))))))))))))))))
| UnboundLocalError ->
  lit (String ((Ascii (true, false, true, false, true, false, true, false)),
    (String ((Ascii (false, true, true, true, false, true, true, false)),
    (String ((Ascii (false, true, false, false, false, true, true, false)),
    (String ((Ascii (true, true, true, true, false, true, true, false)),
    (String ((Ascii (true, false, true, false, true, true, true, false)),
    (String ((Ascii (false, true, true, true, false, true, true, false)),
    (String ((Ascii (false, false, true, false, false, true, true, false)),
    (String ((Ascii (false, false, true, true, false, false, true, false)),
    (String ((Ascii (true, true, true, true, false, true, true, false)),
    (String ((Ascii (true, true, false, false, false, true, true, false)),
    (String ((Ascii (true, false, false, false, false, true, true, false)),
    (String ((Ascii (false, false, true, true, false, true, true, false)),
    (String ((Ascii (true, false, true, false, false, false, true, false)),
    (String ((Ascii (false, true, false, false, true, true, true, false)),
    (String ((Ascii (false, true, false, false, true, true, true, false)),
    (String ((Ascii (true, true, true, true, false, true, true, false)),
    (String ((Ascii (false, true, false, false, true, true, true, false)),
    EmptyString))))))))))))))))))))))))))))))))))

(** val sp : str **)

let sp =
  (Npos (XO (XO (XO (XO (XO XH)))))) :: []

(** val show_val : val0 -> str **)

let rec show_val = function
| VStr s ->
  (Npos (XI (XI (XO (XO (XI (XO
    XH))))))) :: (app sp
                   (app (n_to_dec (N.of_nat (length s)))
                     (flat_map (fun c -> app sp (n_to_dec c)) s)))
| VInt z0 -> (Npos (XI (XO (XO (XI (XO (XO XH))))))) :: (app sp (show_Z z0))
| VNone -> (Npos (XO (XI (XI (XI (XO (XO XH))))))) :: []
| VBool b ->
  if b
  then (Npos (XO (XO (XI (XO (XI (XO XH))))))) :: []
  else (Npos (XO (XI (XI (XO (XO (XO XH))))))) :: []
| VList l ->
  (Npos (XO (XO (XI (XI (XO (XO
    XH))))))) :: (app sp
                   (app (n_to_dec (N.of_nat (length l)))
                     (let rec go = function
                      | [] -> []
                      | x :: l' -> app sp (app (show_val x) (go l'))
                      in go l)))
| VExn e -> (Npos (XI (XO (XI (XO (XO (XO XH))))))) :: (app sp (show_exn e))

(** val vPair : val0 -> val0 -> val0 **)

let vPair a b =
  VList (a :: (b :: []))

(** val vStrs : str list -> val0 **)

let vStrs l =
  VList (map (fun x -> VStr x) l)

(** val vN : n -> val0 **)

let vN n0 =
  VInt (Z.of_N n0)

(** val lF : char **)

let lF =
  Npos (XO (XI (XO XH)))

(** val sP : char **)

let sP =
  Npos (XO (XO (XO (XO (XO XH)))))

(** val dOT : char **)

let dOT =
  Npos (XO (XI (XI (XI (XO XH)))))

(** val nl_sp : str **)

let nl_sp =
  lF :: (sP :: [])

(** val line_separated : str -> str list **)

let line_separated =
  splitlines

(** val fmt_rest : str list -> str list **)

let rec fmt_rest = function
| [] -> []
| l :: ls' -> (if all_space l then dOT :: [] else l) :: (fmt_rest ls')

(** val fmt_lines : str list -> str list **)

let fmt_lines = function
| [] -> []
| l :: ls' -> (if all_space l then [] else l) :: (fmt_rest ls')

(** val as_formatted_lines : str list -> str **)

let as_formatted_lines ls =
  join nl_sp (fmt_lines ls)

(** val as_formatted_text : str -> str **)

let as_formatted_text t =
  as_formatted_lines (splitlines t)

(** val decode_line : str -> str **)

let decode_line l =
  let l0 = rstrip l in
  (match l0 with
   | [] -> strip l0
   | c :: l1 ->
     (match c with
      | N0 -> strip l0
      | Npos p ->
        (match p with
         | XO p0 ->
           (match p0 with
            | XO p1 ->
              (match p1 with
               | XO p2 ->
                 (match p2 with
                  | XO p3 ->
                    (match p3 with
                     | XO p4 ->
                       (match p4 with
                        | XH ->
                          (match l1 with
                           | [] -> strip l0
                           | c0 :: l2 ->
                             (match c0 with
                              | N0 -> strip l0
                              | Npos p5 ->
                                (match p5 with
                                 | XO p6 ->
                                   (match p6 with
                                    | XI p7 ->
                                      (match p7 with
                                       | XI p8 ->
                                         (match p8 with
                                          | XI p9 ->
                                            (match p9 with
                                             | XO p10 ->
                                               (match p10 with
                                                | XH ->
                                                  (match l2 with
                                                   | [] -> []
                                                   | _ :: _ -> tl l0)
                                                | _ -> strip l0)
                                             | _ -> strip l0)
                                          | _ -> strip l0)
                                       | _ -> strip l0)
                                    | XO p7 ->
                                      (match p7 with
                                       | XO p8 ->
                                         (match p8 with
                                          | XO p9 ->
                                            (match p9 with
                                             | XO p10 ->
                                               (match p10 with
                                                | XH -> tl l0
                                                | _ -> strip l0)
                                             | _ -> strip l0)
                                          | _ -> strip l0)
                                       | _ -> strip l0)
                                    | XH -> strip l0)
                                 | _ -> strip l0)))
                        | _ -> strip l0)
                     | _ -> strip l0)
                  | _ -> strip l0)
               | _ -> strip l0)
            | _ -> strip l0)
         | _ -> strip l0)))

(** val from_formatted_lines : str list -> str **)

let from_formatted_lines = function
| [] -> []
| l0 :: ls' -> join (lF :: []) ((strip l0) :: (map decode_line ls'))

(** val from_formatted_text : str -> str **)

let from_formatted_text t =
  from_formatted_lines (line_separated t)

(** val ftf_from_value : str -> str **)

let ftf_from_value =
  from_formatted_text

(** val ftf_dumps : str -> str **)

let ftf_dumps text =
  as_formatted_lines (line_separated text)

(** val desc_from_value : str -> str * str **)

let desc_from_value v =
  match line_separated v with
  | [] -> ([], [])
  | l0 :: ls -> ((strip l0), (from_formatted_lines ls))

(** val desc_dumps : str -> str -> str **)

let desc_dumps syn text =
  let syn0 = strip syn in
  (match text with
   | [] -> as_formatted_lines (syn0 :: [])
   | c :: t' ->
     let text0 =
       if N.eqb c (Npos (XO (XO (XO (XO (XO XH)))))) then t' else text
     in
     as_formatted_lines (syn0 :: (splitlines text0)))

(** val lic_from_value : str -> str * str **)

let lic_from_value v =
  let (syn, text) = desc_from_value v in (syn, (lstrip text))

(** val lic_dumps : str -> str -> str **)

let lic_dumps name text =
  strip (desc_dumps name text)

(** val fn_is : string -> str -> bool **)

let fn_is name fn =
  str_eqb (lit name) fn

(** val ranges_step :
    (n -> bool) -> ((n * n option) * (n * n) list) -> (n * n
    option) * (n * n) list **)

let ranges_step p = function
| (p0, acc) ->
  let (c, open0) = p0 in
  let open' =
    match open0 with
    | Some a ->
      if p c then (open0, acc) else (None, ((a, (N.sub c (Npos XH))) :: acc))
    | None -> if p c then ((Some c), acc) else (open0, acc)
  in
  (((N.add c (Npos XH)), (fst open')), (snd open'))

(** val ranges_of : (n -> bool) -> n -> (n * n) list **)

let ranges_of p bound =
  let (p0, acc) = N.iter bound (ranges_step p) ((N0, None), []) in
  let (c, open0) = p0 in
  rev
    (match open0 with
     | Some a -> (a, (N.sub c (Npos XH))) :: acc
     | None -> acc)

(** val vRanges : (n * n) list -> val0 **)

let vRanges l =
  VList (map (fun r -> vPair (vN (fst r)) (vN (snd r))) l)

(** val class_by_name : str -> (n -> bool) option **)

let class_by_name fn =
  if fn_is (String ((Ascii (true, false, false, true, false, true, true,
       false)), (String ((Ascii (true, true, false, false, true, true, true,
       false)), (String ((Ascii (true, true, true, true, true, false, true,
       false)), (String ((Ascii (true, true, false, false, true, true, true,
       false)), (String ((Ascii (false, false, false, false, true, true,
       true, false)), (String ((Ascii (true, false, false, false, false,
       true, true, false)), (String ((Ascii (true, true, false, false, false,
       true, true, false)), (String ((Ascii (true, false, true, false, false,
       true, true, false)), EmptyString)))))))))))))))) fn
  then Some is_space
  else if fn_is (String ((Ascii (true, false, false, true, false, true, true,
            false)), (String ((Ascii (true, true, false, false, true, true,
            true, false)), (String ((Ascii (true, true, true, true, true,
            false, true, false)), (String ((Ascii (false, false, true, true,
            false, true, true, false)), (String ((Ascii (true, false, false,
            true, false, true, true, false)), (String ((Ascii (false, true,
            true, true, false, true, true, false)), (String ((Ascii (true,
            false, true, false, false, true, true, false)), (String ((Ascii
            (false, true, false, false, false, true, true, false)), (String
            ((Ascii (false, true, false, false, true, true, true, false)),
            (String ((Ascii (true, false, true, false, false, true, true,
            false)), (String ((Ascii (true, false, false, false, false, true,
            true, false)), (String ((Ascii (true, true, false, true, false,
            true, true, false)), EmptyString)))))))))))))))))))))))) fn
       then Some is_linebreak
       else if fn_is (String ((Ascii (true, false, false, true, false, true,
                 true, false)), (String ((Ascii (true, true, false, false,
                 true, true, true, false)), (String ((Ascii (true, true,
                 true, true, true, false, true, false)), (String ((Ascii
                 (false, true, true, true, false, true, true, false)),
                 (String ((Ascii (false, false, true, false, false, true,
                 true, false)), EmptyString)))))))))) fn
            then Some is_nd
            else if fn_is (String ((Ascii (true, false, false, true, false,
                      true, true, false)), (String ((Ascii (true, true,
                      false, false, true, true, true, false)), (String
                      ((Ascii (true, true, true, true, true, false, true,
                      false)), (String ((Ascii (false, false, false, false,
                      true, true, true, false)), (String ((Ascii (true,
                      false, false, true, true, true, true, false)), (String
                      ((Ascii (false, false, true, false, false, true, true,
                      false)), (String ((Ascii (true, false, false, true,
                      false, true, true, false)), (String ((Ascii (true,
                      true, true, false, false, true, true, false)), (String
                      ((Ascii (true, false, false, true, false, true, true,
                      false)), (String ((Ascii (false, false, true, false,
                      true, true, true, false)),
                      EmptyString)))))))))))))))))))) fn
                 then Some is_pydigit
                 else None

(** val dispatch : str -> val0 list -> val0 **)

let dispatch fn = function
| [] -> VNone
| v :: l ->
  (match v with
   | VStr a ->
     (match l with
      | [] ->
        if fn_is (String ((Ascii (true, true, false, false, false, true,
             true, false)), (String ((Ascii (false, false, true, true, false,
             true, true, false)), (String ((Ascii (true, false, false, false,
             false, true, true, false)), (String ((Ascii (true, true, false,
             false, true, true, true, false)), (String ((Ascii (true, true,
             false, false, true, true, true, false)), (String ((Ascii (true,
             true, true, true, true, false, true, false)), (String ((Ascii
             (false, true, false, false, true, true, true, false)), (String
             ((Ascii (true, false, false, false, false, true, true, false)),
             (String ((Ascii (false, true, true, true, false, true, true,
             false)), (String ((Ascii (true, true, true, false, false, true,
             true, false)), (String ((Ascii (true, false, true, false, false,
             true, true, false)), (String ((Ascii (true, true, false, false,
             true, true, true, false)), EmptyString)))))))))))))))))))))))) fn
        then (match class_by_name a with
              | Some p ->
                vRanges
                  (ranges_of p (Npos (XO (XO (XO (XO (XO (XO (XO (XO (XO (XO
                    (XO (XO (XO (XO (XO (XO (XI (XO (XO (XO
                    XH))))))))))))))))))))))
              | None -> VNone)
        else if fn_is (String ((Ascii (true, true, false, false, true, true,
                  true, false)), (String ((Ascii (false, false, true, false,
                  true, true, true, false)), (String ((Ascii (false, true,
                  false, false, true, true, true, false)), (String ((Ascii
                  (true, false, false, true, false, true, true, false)),
                  (String ((Ascii (false, false, false, false, true, true,
                  true, false)), EmptyString)))))))))) fn
             then VStr (strip a)
             else if fn_is (String ((Ascii (false, false, true, true, false,
                       true, true, false)), (String ((Ascii (true, true,
                       false, false, true, true, true, false)), (String
                       ((Ascii (false, false, true, false, true, true, true,
                       false)), (String ((Ascii (false, true, false, false,
                       true, true, true, false)), (String ((Ascii (true,
                       false, false, true, false, true, true, false)),
                       (String ((Ascii (false, false, false, false, true,
                       true, true, false)), EmptyString)))))))))))) fn
                  then VStr (lstrip a)
                  else if fn_is (String ((Ascii (false, true, false, false,
                            true, true, true, false)), (String ((Ascii (true,
                            true, false, false, true, true, true, false)),
                            (String ((Ascii (false, false, true, false, true,
                            true, true, false)), (String ((Ascii (false,
                            true, false, false, true, true, true, false)),
                            (String ((Ascii (true, false, false, true, false,
                            true, true, false)), (String ((Ascii (false,
                            false, false, false, true, true, true, false)),
                            EmptyString)))))))))))) fn
                       then VStr (rstrip a)
                       else if fn_is (String ((Ascii (true, true, false,
                                 false, true, true, true, false)), (String
                                 ((Ascii (false, false, false, false, true,
                                 true, true, false)), (String ((Ascii (false,
                                 false, true, true, false, true, true,
                                 false)), (String ((Ascii (true, false,
                                 false, true, false, true, true, false)),
                                 (String ((Ascii (false, false, true, false,
                                 true, true, true, false)), (String ((Ascii
                                 (true, true, true, true, true, false, true,
                                 false)), (String ((Ascii (true, true, true,
                                 false, true, true, true, false)), (String
                                 ((Ascii (true, true, false, false, true,
                                 true, true, false)),
                                 EmptyString)))))))))))))))) fn
                            then vStrs (split_ws a)
                            else if fn_is (String ((Ascii (true, true, false,
                                      false, true, true, true, false)),
                                      (String ((Ascii (false, false, false,
                                      false, true, true, true, false)),
                                      (String ((Ascii (false, false, true,
                                      true, false, true, true, false)),
                                      (String ((Ascii (true, false, false,
                                      true, false, true, true, false)),
                                      (String ((Ascii (false, false, true,
                                      false, true, true, true, false)),
                                      (String ((Ascii (false, false, true,
                                      true, false, true, true, false)),
                                      (String ((Ascii (true, false, false,
                                      true, false, true, true, false)),
                                      (String ((Ascii (false, true, true,
                                      true, false, true, true, false)),
                                      (String ((Ascii (true, false, true,
                                      false, false, true, true, false)),
                                      (String ((Ascii (true, true, false,
                                      false, true, true, true, false)),
                                      EmptyString)))))))))))))))))))) fn
                                 then vStrs (splitlines a)
                                 else if fn_is (String ((Ascii (true, true,
                                           false, false, true, true, true,
                                           false)), (String ((Ascii (false,
                                           false, false, false, true, true,
                                           true, false)), (String ((Ascii
                                           (false, false, true, true, false,
                                           true, true, false)), (String
                                           ((Ascii (true, false, false, true,
                                           false, true, true, false)),
                                           (String ((Ascii (false, false,
                                           true, false, true, true, true,
                                           false)), (String ((Ascii (false,
                                           false, true, true, false, true,
                                           true, false)), (String ((Ascii
                                           (true, false, false, true, false,
                                           true, true, false)), (String
                                           ((Ascii (false, true, true, true,
                                           false, true, true, false)),
                                           (String ((Ascii (true, false,
                                           true, false, false, true, true,
                                           false)), (String ((Ascii (true,
                                           true, false, false, true, true,
                                           true, false)), (String ((Ascii
                                           (true, true, true, true, true,
                                           false, true, false)), (String
                                           ((Ascii (true, true, false, true,
                                           false, true, true, false)),
                                           (String ((Ascii (true, false,
                                           true, false, false, true, true,
                                           false)), (String ((Ascii (true,
                                           false, true, false, false, true,
                                           true, false)), (String ((Ascii
                                           (false, false, false, false, true,
                                           true, true, false)),
                                           EmptyString))))))))))))))))))))))))))))))
                                           fn
                                      then vStrs
                                             (splitlines_keep_by is_linebreak
                                               a)
                                      else if fn_is (String ((Ascii (false,
                                                false, true, true, false,
                                                true, true, false)), (String
                                                ((Ascii (true, true, true,
                                                true, false, true, true,
                                                false)), (String ((Ascii
                                                (true, true, true, false,
                                                true, true, true, false)),
                                                (String ((Ascii (true, false,
                                                true, false, false, true,
                                                true, false)), (String
                                                ((Ascii (false, true, false,
                                                false, true, true, true,
                                                false)), (String ((Ascii
                                                (true, true, true, true,
                                                true, false, true, false)),
                                                (String ((Ascii (false, true,
                                                true, true, false, true,
                                                true, false)), (String
                                                ((Ascii (true, false, false,
                                                false, false, true, true,
                                                false)), (String ((Ascii
                                                (true, false, true, true,
                                                false, true, true, false)),
                                                (String ((Ascii (true, false,
                                                true, false, false, true,
                                                true, false)),
                                                EmptyString))))))))))))))))))))
                                                fn
                                           then VStr (lower_name a)
                                           else if fn_is (String ((Ascii
                                                     (true, false, false,
                                                     false, false, true,
                                                     true, false)), (String
                                                     ((Ascii (true, true,
                                                     false, false, true,
                                                     true, true, false)),
                                                     (String ((Ascii (true,
                                                     true, true, true, true,
                                                     false, true, false)),
                                                     (String ((Ascii (false,
                                                     true, true, false,
                                                     false, true, true,
                                                     false)), (String ((Ascii
                                                     (true, true, true, true,
                                                     false, true, true,
                                                     false)), (String ((Ascii
                                                     (false, true, false,
                                                     false, true, true, true,
                                                     false)), (String ((Ascii
                                                     (true, false, true,
                                                     true, false, true, true,
                                                     false)), (String ((Ascii
                                                     (true, false, false,
                                                     false, false, true,
                                                     true, false)), (String
                                                     ((Ascii (false, false,
                                                     true, false, true, true,
                                                     true, false)), (String
                                                     ((Ascii (false, false,
                                                     true, false, true, true,
                                                     true, false)), (String
                                                     ((Ascii (true, false,
                                                     true, false, false,
                                                     true, true, false)),
                                                     (String ((Ascii (false,
                                                     false, true, false,
                                                     false, true, true,
                                                     false)), (String ((Ascii
                                                     (true, true, true, true,
                                                     true, false, true,
                                                     false)), (String ((Ascii
                                                     (false, false, true,
                                                     false, true, true, true,
                                                     false)), (String ((Ascii
                                                     (true, false, true,
                                                     false, false, true,
                                                     true, false)), (String
                                                     ((Ascii (false, false,
                                                     false, true, true, true,
                                                     true, false)), (String
                                                     ((Ascii (false, false,
                                                     true, false, true, true,
                                                     true, false)),
                                                     EmptyString))))))))))))))))))))))))))))))))))
                                                     fn
                                                then VStr
                                                       (as_formatted_text a)
                                                else if fn_is (String ((Ascii
                                                          (false, true, true,
                                                          false, false, true,
                                                          true, false)),
                                                          (String ((Ascii
                                                          (false, true,
                                                          false, false, true,
                                                          true, true,
                                                          false)), (String
                                                          ((Ascii (true,
                                                          true, true, true,
                                                          false, true, true,
                                                          false)), (String
                                                          ((Ascii (true,
                                                          false, true, true,
                                                          false, true, true,
                                                          false)), (String
                                                          ((Ascii (true,
                                                          true, true, true,
                                                          true, false, true,
                                                          false)), (String
                                                          ((Ascii (false,
                                                          true, true, false,
                                                          false, true, true,
                                                          false)), (String
                                                          ((Ascii (true,
                                                          true, true, true,
                                                          false, true, true,
                                                          false)), (String
                                                          ((Ascii (false,
                                                          true, false, false,
                                                          true, true, true,
                                                          false)), (String
                                                          ((Ascii (true,
                                                          false, true, true,
                                                          false, true, true,
                                                          false)), (String
                                                          ((Ascii (true,
                                                          false, false,
                                                          false, false, true,
                                                          true, false)),
                                                          (String ((Ascii
                                                          (false, false,
                                                          true, false, true,
                                                          true, true,
                                                          false)), (String
                                                          ((Ascii (false,
                                                          false, true, false,
                                                          true, true, true,
                                                          false)), (String
                                                          ((Ascii (true,
                                                          false, true, false,
                                                          false, true, true,
                                                          false)), (String
                                                          ((Ascii (false,
                                                          false, true, false,
                                                          false, true, true,
                                                          false)), (String
                                                          ((Ascii (true,
                                                          true, true, true,
                                                          true, false, true,
                                                          false)), (String
                                                          ((Ascii (false,
                                                          false, true, false,
                                                          true, true, true,
                                                          false)), (String
                                                          ((Ascii (true,
                                                          false, true, false,
                                                          false, true, true,
                                                          false)), (String
                                                          ((Ascii (false,
                                                          false, false, true,
                                                          true, true, true,
                                                          false)), (String
                                                          ((Ascii (false,
                                                          false, true, false,
                                                          true, true, true,
                                                          false)),
                                                          EmptyString))))))))))))))))))))))))))))))))))))))
                                                          fn
                                                     then VStr
                                                            (from_formatted_text
                                                              a)
                                                     else if fn_is (String
                                                               ((Ascii
                                                               (false, true,
                                                               true, false,
                                                               false, true,
                                                               true, false)),
                                                               (String
                                                               ((Ascii
                                                               (false, false,
                                                               true, false,
                                                               true, true,
                                                               true, false)),
                                                               (String
                                                               ((Ascii
                                                               (false, true,
                                                               true, false,
                                                               false, true,
                                                               true, false)),
                                                               (String
                                                               ((Ascii (true,
                                                               true, true,
                                                               true, true,
                                                               false, true,
                                                               false)),
                                                               (String
                                                               ((Ascii
                                                               (false, true,
                                                               false, false,
                                                               true, true,
                                                               true, false)),
                                                               (String
                                                               ((Ascii (true,
                                                               true, true,
                                                               true, false,
                                                               true, true,
                                                               false)),
                                                               (String
                                                               ((Ascii (true,
                                                               false, true,
                                                               false, true,
                                                               true, true,
                                                               false)),
                                                               (String
                                                               ((Ascii
                                                               (false, true,
                                                               true, true,
                                                               false, true,
                                                               true, false)),
                                                               (String
                                                               ((Ascii
                                                               (false, false,
                                                               true, false,
                                                               false, true,
                                                               true, false)),
                                                               (String
                                                               ((Ascii
                                                               (false, false,
                                                               true, false,
                                                               true, true,
                                                               true, false)),
                                                               (String
                                                               ((Ascii
                                                               (false, true,
                                                               false, false,
                                                               true, true,
                                                               true, false)),
                                                               (String
                                                               ((Ascii (true,
                                                               false, false,
                                                               true, false,
                                                               true, true,
                                                               false)),
                                                               (String
                                                               ((Ascii
                                                               (false, false,
                                                               false, false,
                                                               true, true,
                                                               true, false)),
                                                               EmptyString))))))))))))))))))))))))))
                                                               fn
                                                          then let t =
                                                                 ftf_from_value
                                                                   a
                                                               in
                                                               vPair (VStr t)
                                                                 (VStr
                                                                 (ftf_dumps t))
                                                          else if fn_is
                                                                    (String
                                                                    ((Ascii
                                                                    (false,
                                                                    false,
                                                                    true,
                                                                    false,
                                                                    false,
                                                                    true,
                                                                    true,
                                                                    false)),
                                                                    (String
                                                                    ((Ascii
                                                                    (true,
                                                                    false,
                                                                    true,
                                                                    false,
                                                                    false,
                                                                    true,
                                                                    true,
                                                                    false)),
                                                                    (String
                                                                    ((Ascii
                                                                    (true,
                                                                    true,
                                                                    false,
                                                                    false,
                                                                    true,
                                                                    true,
                                                                    true,
                                                                    false)),
                                                                    (String
                                                                    ((Ascii
                                                                    (true,
                                                                    true,
                                                                    false,
                                                                    false,
                                                                    false,
                                                                    true,
                                                                    true,
                                                                    false)),
                                                                    (String
                                                                    ((Ascii
                                                                    (true,
                                                                    true,
                                                                    true,
                                                                    true,
                                                                    true,
                                                                    false,
                                                                    true,
                                                                    false)),
                                                                    (String
                                                                    ((Ascii
                                                                    (false,
                                                                    true,
                                                                    false,
                                                                    false,
                                                                    true,
                                                                    true,
                                                                    true,
                                                                    false)),
                                                                    (String
                                                                    ((Ascii
                                                                    (true,
                                                                    true,
                                                                    true,
                                                                    true,
                                                                    false,
                                                                    true,
                                                                    true,
                                                                    false)),
                                                                    (String
                                                                    ((Ascii
                                                                    (true,
                                                                    false,
                                                                    true,
                                                                    false,
                                                                    true,
                                                                    true,
                                                                    true,
                                                                    false)),
                                                                    (String
                                                                    ((Ascii
                                                                    (false,
                                                                    true,
                                                                    true,
                                                                    true,
                                                                    false,
                                                                    true,
                                                                    true,
                                                                    false)),
                                                                    (String
                                                                    ((Ascii
                                                                    (false,
                                                                    false,
                                                                    true,
                                                                    false,
                                                                    false,
                                                                    true,
                                                                    true,
                                                                    false)),
                                                                    (String
                                                                    ((Ascii
                                                                    (false,
                                                                    false,
                                                                    true,
                                                                    false,
                                                                    true,
                                                                    true,
                                                                    true,
                                                                    false)),
                                                                    (String
                                                                    ((Ascii
                                                                    (false,
                                                                    true,
                                                                    false,
                                                                    false,
                                                                    true,
                                                                    true,
                                                                    true,
                                                                    false)),
                                                                    (String
                                                                    ((Ascii
                                                                    (true,
                                                                    false,
                                                                    false,
                                                                    true,
                                                                    false,
                                                                    true,
                                                                    true,
                                                                    false)),
                                                                    (String
                                                                    ((Ascii
                                                                    (false,
                                                                    false,
                                                                    false,
                                                                    false,
                                                                    true,
                                                                    true,
                                                                    true,
                                                                    false)),
                                                                    EmptyString))))))))))))))))))))))))))))
                                                                    fn
                                                               then let (
                                                                    s, t) =
                                                                    desc_from_value
                                                                    a
                                                                    in
                                                                    VList
                                                                    ((VStr
                                                                    s) :: ((VStr
                                                                    t) :: ((VStr
                                                                    (desc_dumps
                                                                    s t)) :: [])))
                                                               else if 
                                                                    fn_is
                                                                    (String
                                                                    ((Ascii
                                                                    (false,
                                                                    false,
                                                                    true,
                                                                    true,
                                                                    false,
                                                                    true,
                                                                    true,
                                                                    false)),
                                                                    (String
                                                                    ((Ascii
                                                                    (true,
                                                                    false,
                                                                    false,
                                                                    true,
                                                                    false,
                                                                    true,
                                                                    true,
                                                                    false)),
                                                                    (String
                                                                    ((Ascii
                                                                    (true,
                                                                    true,
                                                                    false,
                                                                    false,
                                                                    false,
                                                                    true,
                                                                    true,
                                                                    false)),
                                                                    (String
                                                                    ((Ascii
                                                                    (true,
                                                                    true,
                                                                    true,
                                                                    true,
                                                                    true,
                                                                    false,
                                                                    true,
                                                                    false)),
                                                                    (String
                                                                    ((Ascii
                                                                    (false,
                                                                    true,
                                                                    false,
                                                                    false,
                                                                    true,
                                                                    true,
                                                                    true,
                                                                    false)),
                                                                    (String
                                                                    ((Ascii
                                                                    (true,
                                                                    true,
                                                                    true,
                                                                    true,
                                                                    false,
                                                                    true,
                                                                    true,
                                                                    false)),
                                                                    (String
                                                                    ((Ascii
                                                                    (true,
                                                                    false,
                                                                    true,
                                                                    false,
                                                                    true,
                                                                    true,
                                                                    true,
                                                                    false)),
                                                                    (String
                                                                    ((Ascii
                                                                    (false,
                                                                    true,
                                                                    true,
                                                                    true,
                                                                    false,
                                                                    true,
                                                                    true,
                                                                    false)),
                                                                    (String
                                                                    ((Ascii
                                                                    (false,
                                                                    false,
                                                                    true,
                                                                    false,
                                                                    false,
                                                                    true,
                                                                    true,
                                                                    false)),
                                                                    (String
                                                                    ((Ascii
                                                                    (false,
                                                                    false,
                                                                    true,
                                                                    false,
                                                                    true,
                                                                    true,
                                                                    true,
                                                                    false)),
                                                                    (String
                                                                    ((Ascii
                                                                    (false,
                                                                    true,
                                                                    false,
                                                                    false,
                                                                    true,
                                                                    true,
                                                                    true,
                                                                    false)),
                                                                    (String
                                                                    ((Ascii
                                                                    (true,
                                                                    false,
                                                                    false,
                                                                    true,
                                                                    false,
                                                                    true,
                                                                    true,
                                                                    false)),
                                                                    (String
                                                                    ((Ascii
                                                                    (false,
                                                                    false,
                                                                    false,
                                                                    false,
                                                                    true,
                                                                    true,
                                                                    true,
                                                                    false)),
                                                                    EmptyString))))))))))))))))))))))))))
                                                                    fn
                                                                    then 
                                                                    let (
                                                                    s, t) =
                                                                    lic_from_value
                                                                    a
                                                                    in
                                                                    VList
                                                                    ((VStr
                                                                    s) :: ((VStr
                                                                    t) :: ((VStr
                                                                    (lic_dumps
                                                                    s t)) :: [])))
                                                                    else VNone
      | v0 :: l0 ->
        (match v0 with
         | VStr b ->
           (match l0 with
            | [] ->
              if fn_is (String ((Ascii (true, true, false, false, true, true,
                   true, false)), (String ((Ascii (false, false, false,
                   false, true, true, true, false)), (String ((Ascii (false,
                   false, true, true, false, true, true, false)), (String
                   ((Ascii (true, false, false, true, false, true, true,
                   false)), (String ((Ascii (false, false, true, false, true,
                   true, true, false)), (String ((Ascii (true, true, true,
                   true, true, false, true, false)), (String ((Ascii (true,
                   true, false, false, false, true, true, false)), (String
                   ((Ascii (false, false, false, true, false, true, true,
                   false)), (String ((Ascii (true, false, false, false,
                   false, true, true, false)), (String ((Ascii (false, true,
                   false, false, true, true, true, false)),
                   EmptyString)))))))))))))))))))) fn
              then (match a with
                    | [] -> VNone
                    | c :: l1 ->
                      (match l1 with
                       | [] -> vStrs (split_char c b)
                       | _ :: _ -> VNone))
              else if fn_is (String ((Ascii (false, false, false, false,
                        true, true, true, false)), (String ((Ascii (true,
                        false, false, false, false, true, true, false)),
                        (String ((Ascii (false, true, false, false, true,
                        true, true, false)), (String ((Ascii (false, false,
                        true, false, true, true, true, false)), (String
                        ((Ascii (true, false, false, true, false, true, true,
                        false)), (String ((Ascii (false, false, true, false,
                        true, true, true, false)), (String ((Ascii (true,
                        false, false, true, false, true, true, false)),
                        (String ((Ascii (true, true, true, true, false, true,
                        true, false)), (String ((Ascii (false, true, true,
                        true, false, true, true, false)), (String ((Ascii
                        (true, true, true, true, true, false, true, false)),
                        (String ((Ascii (true, true, false, false, true,
                        true, true, false)), (String ((Ascii (false, false,
                        true, false, true, true, true, false)), (String
                        ((Ascii (false, true, false, false, true, true, true,
                        false)), EmptyString)))))))))))))))))))))))))) fn
                   then let (p, y) = partition_str a b in
                        let (x, f) = p in
                        VList ((VStr x) :: ((VBool f) :: ((VStr y) :: [])))
                   else if fn_is (String ((Ascii (false, true, false, false,
                             true, true, true, false)), (String ((Ascii
                             (false, false, false, false, true, true, true,
                             false)), (String ((Ascii (true, false, false,
                             false, false, true, true, false)), (String
                             ((Ascii (false, true, false, false, true, true,
                             true, false)), (String ((Ascii (false, false,
                             true, false, true, true, true, false)), (String
                             ((Ascii (true, false, false, true, false, true,
                             true, false)), (String ((Ascii (false, false,
                             true, false, true, true, true, false)), (String
                             ((Ascii (true, false, false, true, false, true,
                             true, false)), (String ((Ascii (true, true,
                             true, true, false, true, true, false)), (String
                             ((Ascii (false, true, true, true, false, true,
                             true, false)), (String ((Ascii (true, true,
                             true, true, true, false, true, false)), (String
                             ((Ascii (true, true, false, false, true, true,
                             true, false)), (String ((Ascii (false, false,
                             true, false, true, true, true, false)), (String
                             ((Ascii (false, true, false, false, true, true,
                             true, false)),
                             EmptyString)))))))))))))))))))))))))))) fn
                        then let (p, y) = rpartition_str a b in
                             let (x, f) = p in
                             VList ((VStr x) :: ((VBool f) :: ((VStr
                             y) :: [])))
                        else if fn_is (String ((Ascii (false, false, true,
                                  false, false, true, true, false)), (String
                                  ((Ascii (true, false, true, false, false,
                                  true, true, false)), (String ((Ascii (true,
                                  true, false, false, true, true, true,
                                  false)), (String ((Ascii (true, true,
                                  false, false, false, true, true, false)),
                                  (String ((Ascii (true, true, true, true,
                                  true, false, true, false)), (String ((Ascii
                                  (false, false, true, false, false, true,
                                  true, false)), (String ((Ascii (true,
                                  false, true, false, true, true, true,
                                  false)), (String ((Ascii (true, false,
                                  true, true, false, true, true, false)),
                                  (String ((Ascii (false, false, false,
                                  false, true, true, true, false)), (String
                                  ((Ascii (true, true, false, false, true,
                                  true, true, false)),
                                  EmptyString)))))))))))))))))))) fn
                             then VStr (desc_dumps a b)
                             else if fn_is (String ((Ascii (false, false,
                                       true, true, false, true, true,
                                       false)), (String ((Ascii (true, false,
                                       false, true, false, true, true,
                                       false)), (String ((Ascii (true, true,
                                       false, false, false, true, true,
                                       false)), (String ((Ascii (true, true,
                                       true, true, true, false, true,
                                       false)), (String ((Ascii (false,
                                       false, true, false, false, true, true,
                                       false)), (String ((Ascii (true, false,
                                       true, false, true, true, true,
                                       false)), (String ((Ascii (true, false,
                                       true, true, false, true, true,
                                       false)), (String ((Ascii (false,
                                       false, false, false, true, true, true,
                                       false)), (String ((Ascii (true, true,
                                       false, false, true, true, true,
                                       false)), EmptyString))))))))))))))))))
                                       fn
                                  then VStr (lic_dumps a b)
                                  else VNone
            | _ :: _ -> VNone)
         | _ -> VNone))
   | VList ls ->
     (match l with
      | [] ->
        if fn_is (String ((Ascii (true, false, false, false, false, true,
             true, false)), (String ((Ascii (true, true, false, false, true,
             true, true, false)), (String ((Ascii (true, true, true, true,
             true, false, true, false)), (String ((Ascii (false, true, true,
             false, false, true, true, false)), (String ((Ascii (true, true,
             true, true, false, true, true, false)), (String ((Ascii (false,
             true, false, false, true, true, true, false)), (String ((Ascii
             (true, false, true, true, false, true, true, false)), (String
             ((Ascii (true, false, false, false, false, true, true, false)),
             (String ((Ascii (false, false, true, false, true, true, true,
             false)), (String ((Ascii (false, false, true, false, true, true,
             true, false)), (String ((Ascii (true, false, true, false, false,
             true, true, false)), (String ((Ascii (false, false, true, false,
             false, true, true, false)), (String ((Ascii (true, true, true,
             true, true, false, true, false)), (String ((Ascii (false, false,
             true, true, false, true, true, false)), (String ((Ascii (true,
             false, false, true, false, true, true, false)), (String ((Ascii
             (false, true, true, true, false, true, true, false)), (String
             ((Ascii (true, false, true, false, false, true, true, false)),
             (String ((Ascii (true, true, false, false, true, true, true,
             false)), EmptyString)))))))))))))))))))))))))))))))))))) fn
        then VStr
               (as_formatted_lines
                 (flat_map (fun v0 ->
                   match v0 with
                   | VStr s -> s :: []
                   | _ -> []) ls))
        else if fn_is (String ((Ascii (false, true, true, false, false, true,
                  true, false)), (String ((Ascii (false, true, false, false,
                  true, true, true, false)), (String ((Ascii (true, true,
                  true, true, false, true, true, false)), (String ((Ascii
                  (true, false, true, true, false, true, true, false)),
                  (String ((Ascii (true, true, true, true, true, false, true,
                  false)), (String ((Ascii (false, true, true, false, false,
                  true, true, false)), (String ((Ascii (true, true, true,
                  true, false, true, true, false)), (String ((Ascii (false,
                  true, false, false, true, true, true, false)), (String
                  ((Ascii (true, false, true, true, false, true, true,
                  false)), (String ((Ascii (true, false, false, false, false,
                  true, true, false)), (String ((Ascii (false, false, true,
                  false, true, true, true, false)), (String ((Ascii (false,
                  false, true, false, true, true, true, false)), (String
                  ((Ascii (true, false, true, false, false, true, true,
                  false)), (String ((Ascii (false, false, true, false, false,
                  true, true, false)), (String ((Ascii (true, true, true,
                  true, true, false, true, false)), (String ((Ascii (false,
                  false, true, true, false, true, true, false)), (String
                  ((Ascii (true, false, false, true, false, true, true,
                  false)), (String ((Ascii (false, true, true, true, false,
                  true, true, false)), (String ((Ascii (true, false, true,
                  false, false, true, true, false)), (String ((Ascii (true,
                  true, false, false, true, true, true, false)),
                  EmptyString)))))))))))))))))))))))))))))))))))))))) fn
             then VStr
                    (from_formatted_lines
                      (flat_map (fun v0 ->
                        match v0 with
                        | VStr s -> s :: []
                        | _ -> []) ls))
             else VNone
      | _ :: _ -> VNone)
   | _ -> VNone)

(** val run : str -> val0 list -> str **)

let run fn args =
  show_val (dispatch fn args)
