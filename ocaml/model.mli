
type nat =
| O
| S of nat

val fst : ('a1 * 'a2) -> 'a1

val snd : ('a1 * 'a2) -> 'a2

val length : 'a1 list -> nat

val app : 'a1 list -> 'a1 list -> 'a1 list

type comparison =
| Eq
| Lt
| Gt

val add : nat -> nat -> nat

type positive =
| XI of positive
| XO of positive
| XH

type n =
| N0
| Npos of positive

type z =
| Z0
| Zpos of positive
| Zneg of positive

module Pos :
 sig
  type mask =
  | IsNul
  | IsPos of positive
  | IsNeg
 end

module Coq_Pos :
 sig
  val succ : positive -> positive

  val add : positive -> positive -> positive

  val add_carry : positive -> positive -> positive

  val pred_double : positive -> positive

  type mask = Pos.mask =
  | IsNul
  | IsPos of positive
  | IsNeg

  val succ_double_mask : mask -> mask

  val double_mask : mask -> mask

  val double_pred_mask : positive -> mask

  val sub_mask : positive -> positive -> mask

  val sub_mask_carry : positive -> positive -> mask

  val mul : positive -> positive -> positive

  val iter : ('a1 -> 'a1) -> 'a1 -> positive -> 'a1

  val size : positive -> positive

  val compare_cont : comparison -> positive -> positive -> comparison

  val compare : positive -> positive -> comparison

  val eqb : positive -> positive -> bool

  val iter_op : ('a1 -> 'a1 -> 'a1) -> positive -> 'a1 -> 'a1

  val to_nat : positive -> nat

  val of_succ_nat : nat -> positive
 end

module N :
 sig
  val succ_double : n -> n

  val double : n -> n

  val add : n -> n -> n

  val sub : n -> n -> n

  val mul : n -> n -> n

  val compare : n -> n -> comparison

  val eqb : n -> n -> bool

  val leb : n -> n -> bool

  val log2 : n -> n

  val pos_div_eucl : positive -> n -> n * n

  val div_eucl : n -> n -> n * n

  val div : n -> n -> n

  val modulo : n -> n -> n

  val to_nat : n -> nat

  val of_nat : nat -> n

  val iter : n -> ('a1 -> 'a1) -> 'a1 -> 'a1
 end

val tl : 'a1 list -> 'a1 list

val rev : 'a1 list -> 'a1 list

val map : ('a1 -> 'a2) -> 'a1 list -> 'a2 list

val flat_map : ('a1 -> 'a2 list) -> 'a1 list -> 'a2 list

val forallb : ('a1 -> bool) -> 'a1 list -> bool

val skipn : nat -> 'a1 list -> 'a1 list

module Z :
 sig
  val of_N : n -> z
 end

type ascii =
| Ascii of bool * bool * bool * bool * bool * bool * bool * bool

val n_of_digits : bool list -> n

val n_of_ascii : ascii -> n

type string =
| EmptyString
| String of ascii * string

type exn =
| ValueError
| AssertionError
| AttributeError
| TypeError
| KeyError
| IndexError
| NotImplementedError
| PyException
| UnboundLocalError

val nd_ranges : (n * n) list

val pydigit_ranges : (n * n) list

type char = n

type str = char list

val in_ranges : (n * n) list -> n -> bool

val is_space : char -> bool

val is_linebreak : char -> bool

val is_nd : char -> bool

val is_pydigit : char -> bool

val is_ascii_upper : char -> bool

val str_eqb : str -> str -> bool

val drop_while : (char -> bool) -> str -> str

val lstrip_by : (char -> bool) -> str -> str

val rstrip_by : (char -> bool) -> str -> str

val strip_by : (char -> bool) -> str -> str

val lstrip : str -> str

val rstrip : str -> str

val strip : str -> str

val all_space : str -> bool

val startswith : str -> str -> bool

val partition_str : str -> str -> (str * bool) * str

val rpartition_str : str -> str -> (str * bool) * str

val split_char_aux : char -> str -> str -> str list

val split_char : char -> str -> str list

val split_ws_aux : str -> str -> str list

val split_ws : str -> str list

val splitlines_aux : (char -> bool) -> bool -> str -> str -> str list

val splitlines_by : (char -> bool) -> str -> str list

val splitlines : str -> str list

val splitlines_keep_aux : (char -> bool) -> str -> str -> str list

val splitlines_keep_by : (char -> bool) -> str -> str list

val join : str -> str list -> str

val lower_ascii_char : char -> char

val lower_name : str -> str

val n_to_dec_fuel : nat -> n -> str -> str

val n_to_dec : n -> str

val lit : string -> str

type val0 =
| VStr of str
| VInt of z
| VNone
| VBool of bool
| VList of val0 list
| VExn of exn

val show_Z : z -> str

val show_exn : exn -> str

val sp : str

val show_val : val0 -> str

val vPair : val0 -> val0 -> val0

val vStrs : str list -> val0

val vN : n -> val0

val lF : char

val sP : char

val dOT : char

val nl_sp : str

val line_separated : str -> str list

val fmt_rest : str list -> str list

val fmt_lines : str list -> str list

val as_formatted_lines : str list -> str

val as_formatted_text : str -> str

val decode_line : str -> str

val from_formatted_lines : str list -> str

val from_formatted_text : str -> str

val ftf_from_value : str -> str

val ftf_dumps : str -> str

val desc_from_value : str -> str * str

val desc_dumps : str -> str -> str

val lic_from_value : str -> str * str

val lic_dumps : str -> str -> str

val fn_is : string -> str -> bool

val ranges_step :
  (n -> bool) -> ((n * n option) * (n * n) list) -> (n * n option) * (n * n)
  list

val ranges_of : (n -> bool) -> n -> (n * n) list

val vRanges : (n * n) list -> val0

val class_by_name : str -> (n -> bool) option

val dispatch : str -> val0 list -> val0

val run : str -> val0 list -> str
