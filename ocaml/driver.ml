(* Line-protocol server around the extracted model.
   Request : <fname> <val>*      (tokens separated by single spaces)
   val     : S n c1..cn | I z | N | T | F | L n v1..vn
   Reply   : the characters of Model.run fname args (printed by the model itself).
   Integers in requests must fit an OCaml int; replies are printed inside Coq. *)

let rec pos_of_int (i : int) : Model.positive =
  if i = 1 then Model.XH
  else if i land 1 = 0 then Model.XO (pos_of_int (i lsr 1))
  else Model.XI (pos_of_int (i lsr 1))

let n_of_int (i : int) : Model.n = if i = 0 then Model.N0 else Model.Npos (pos_of_int i)

let z_of_int (i : int) : Model.z =
  if i = 0 then Model.Z0 else if i > 0 then Model.Zpos (pos_of_int i) else Model.Zneg (pos_of_int (-i))

let rec int_of_pos (p : Model.positive) : int =
  match p with
  | Model.XH -> 1
  | Model.XO q -> 2 * int_of_pos q
  | Model.XI q -> 2 * int_of_pos q + 1

let int_of_n (n : Model.n) : int = match n with Model.N0 -> 0 | Model.Npos p -> int_of_pos p

exception Bad of string

let rec parse_val (toks : string list) : Model.val0 * string list =
  match toks with
  | "S" :: n :: rest ->
      let n = int_of_string n in
      let rec take k acc l =
        if k = 0 then (List.rev acc, l)
        else match l with
          | c :: l' -> take (k - 1) (n_of_int (int_of_string c) :: acc) l'
          | [] -> raise (Bad "short string")
      in
      let (cs, rest') = take n [] rest in
      (Model.VStr cs, rest')
  | "I" :: z :: rest -> (Model.VInt (z_of_int (int_of_string z)), rest)
  | "N" :: rest -> (Model.VNone, rest)
  | "T" :: rest -> (Model.VBool true, rest)
  | "F" :: rest -> (Model.VBool false, rest)
  | "L" :: n :: rest ->
      let n = int_of_string n in
      let rec take k acc l =
        if k = 0 then (List.rev acc, l)
        else let (v, l') = parse_val l in take (k - 1) (v :: acc) l'
      in
      let (vs, rest') = take n [] rest in
      (Model.VList vs, rest')
  | t :: _ -> raise (Bad ("token " ^ t))
  | [] -> raise (Bad "eof")

let rec parse_vals toks = match toks with
  | [] -> []
  | _ -> let (v, rest) = parse_val toks in v :: parse_vals rest

let str_of_ascii (s : string) : Model.str =
  List.init (String.length s) (fun i -> n_of_int (Char.code s.[i]))

let () =
  let buf = Buffer.create 65536 in
  (try
    while true do
      let line = input_line stdin in
      (match String.split_on_char ' ' line with
       | [] | [""] -> print_string "!empty\n"
       | fname :: toks ->
         (try
           let args = parse_vals toks in
           let out = Model.run (str_of_ascii fname) args in
           Buffer.clear buf;
           List.iter (fun c -> Buffer.add_char buf (Char.chr (int_of_n c))) out;
           Buffer.add_char buf '\n';
           print_string (Buffer.contents buf)
         with
         | Bad m -> print_string ("!bad " ^ m ^ "\n")
         | Failure m -> print_string ("!fail " ^ m ^ "\n")
         | Stack_overflow -> print_string "!stackoverflow\n"));
      flush stdout
    done
  with End_of_file -> ())
