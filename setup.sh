#!/bin/sh
# Build the Coq development (full .vo) and the extracted driver, offline.
set -e
cd "$(dirname "$0")"
cd coq
coq_makefile -f _CoqProject -o Makefile
timeout 3000 make -j16
cd ../ocaml
ocamlfind ocamlopt -w -a model.mli model.ml driver.ml -o driver
echo setup-ok
